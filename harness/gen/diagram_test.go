package gen_test

import (
	"fmt"
	"os"
	"strconv"
	"strings"
	"testing"

	"oss.terrastruct.com/d2/d2compiler"

	"verif/gen"
)

// TestDiagramCompiles is the generator's own contract: every gen.Diagram output compiles
// (d2compiler.Compile, no layout). DIAGRAM_N overrides the number of programs per option set.
func TestDiagramCompiles(t *testing.T) {
	n := 1500
	if s := os.Getenv("DIAGRAM_N"); s != "" {
		n, _ = strconv.Atoi(s)
	}
	sets := map[string]gen.DiagramOpts{
		"default":     {},
		"hostile":     {Hostile: true},
		"elk":         {Engine: "elk"},
		"unsupported": {Unsupported: true, Hostile: true},
		"dense":       {MinObjects: 10, MaxObjects: 40, Grids: .5, Sequence: .3, Near: .8, Boards: .3, Special: .5, RootSpecial: .3, SeqCross: .3},
		"plain":       {Grids: -1, Sequence: -1, Near: -1, Special: -1, Boards: -1, RootSpecial: -1},
	}
	for name, o := range sets {
		fails := 0
		for i := 0; i < n; i++ {
			r := gen.New(int64(i)*7919 + 13)
			text := gen.Diagram(r, o)
			if text2 := gen.Diagram(gen.New(int64(i)*7919+13), o); text2 != text {
				t.Fatalf("%s #%d: not deterministic", name, i)
			}
			err := func() (err error) {
				defer func() {
					if e := recover(); e != nil {
						err = fmt.Errorf("PANIC %v", e)
					}
				}()
				_, _, err = d2compiler.Compile("x.d2", strings.NewReader(text), nil)
				return err
			}()
			if err != nil {
				fails++
				if fails <= 3 {
					t.Errorf("%s #%d does not compile: %v\n%s", name, i, err, text)
				}
			}
		}
		if fails > 0 {
			t.Errorf("%s: %d of %d do not compile", name, fails, n)
		}
	}
}
