package gen

import "fmt"

// BoardProgram generates a program of the C15 fragment: a base board with classes, vars,
// objects, connections and globs, and nested layers / scenarios / steps (depth ≤ 2) whose bodies
// add, modify and null base objects, connections, classes and globs; statements are placed
// before and after the board blocks.
//
// Board blocks are ordinary LStmt nodes: {Key:[layers|scenarios|steps], Body:[{Key:[name], Body:…}]}.
type boardGen struct {
	r       *R
	classes []string
	vars    []string
	nBoards int
	max     int
}

type lbEdge struct {
	src, dst []string
	arrow    string
}

// lbScope is what the generator believes is visible in the board being generated (only used to
// keep references to connections valid most of the time; the monitor does its own derivation).
type lbScope struct {
	edges []lbEdge
}

func (s *lbScope) clone() *lbScope { return &lbScope{edges: append([]lbEdge(nil), s.edges...)} }

var lbNames = []string{"a", "b", "c", "d", "e"}

func BoardProgram(r *R, big bool) []*LStmt {
	g := &boardGen{r: r, max: r.Range(2, 6)}
	if big {
		g.max = r.Range(3, 9)
	}
	var out []*LStmt
	if r.P(0.5) {
		g.classes = []string{"c1", "c2"}
		out = append(out, g.classesBlock())
	}
	if r.P(0.35) {
		g.vars = []string{"v1", "v2"}
		out = append(out, &LStmt{Key: []string{"vars"}, HasBody: true, Tag: "vars", Body: []*LStmt{
			{Key: []string{"v1"}, Val: LLit(Pick(r, lgLabels))}, {Key: []string{"v2"}, Val: LLit(Pick(r, lgColors))}}})
	}
	sc := &lbScope{}
	out = append(out, g.body(r.Range(3, 8), sc, 0, true)...)
	return out
}

func (g *boardGen) classesBlock() *LStmt {
	r := g.r
	b := &LStmt{Key: []string{"classes"}, HasBody: true, Tag: "classes"}
	for _, c := range g.classes {
		if r.P(0.8) {
			a := Pick(r, lgObjAttrs[:4])
			cs := &LStmt{Key: []string{c}, HasBody: true, Body: []*LStmt{{Key: append([]string{}, a.key...), Val: LLit(a.val(r))}}}
			if r.P(0.4) {
				a2 := Pick(r, lgObjAttrs[:4])
				cs.Body = append(cs.Body, &LStmt{Key: append([]string{}, a2.key...), Val: LLit(a2.val(r))})
			}
			b.Body = append(b.Body, cs)
		}
	}
	if len(b.Body) == 0 {
		b.Body = append(b.Body, &LStmt{Key: []string{g.classes[0]}, HasBody: true, Body: []*LStmt{{Key: []string{"shape"}, Val: LLit("circle")}}})
	}
	return b
}

func (g *boardGen) name() string { return Pick(g.r, lbNames) }

func (g *boardGen) path() []string {
	if g.r.P(0.2) {
		return []string{g.name(), g.name()}
	}
	return []string{g.name()}
}

func (g *boardGen) label() *LVal {
	r := g.r
	if len(g.vars) > 0 && r.P(0.3) {
		return &LVal{Parts: []LPart{{Sub: []string{"v1"}}}}
	}
	return LLit(Pick(r, lgLabels))
}

// stmt returns one non-board statement.
func (g *boardGen) stmt(sc *lbScope, depth int) *LStmt {
	r := g.r
	switch r.Weighted(22, 22, 18, 5, 6, 5, 8, 6, 8) {
	case 0:
		s := &LStmt{Key: g.path()}
		if r.P(0.5) {
			s.Val = g.label()
		}
		return s
	case 1:
		a := Pick(r, lgObjAttrs)
		v := LLit(a.val(r))
		if len(g.vars) > 0 && a.key[len(a.key)-1] == "fill" && r.P(0.4) {
			v = &LVal{Parts: []LPart{{Sub: []string{"v2"}}}}
		}
		return &LStmt{Key: append(g.path(), a.key...), Val: v}
	case 2:
		e := lbEdge{src: []string{g.name()}, dst: []string{g.name()}, arrow: Pick(r, []string{"->", "->", "--", "<-"})}
		sc.edges = append(sc.edges, e)
		s := &LStmt{Src: e.src, Dst: e.dst, Arrow: e.arrow}
		if r.P(0.4) {
			s.Val = g.label()
		}
		return s
	case 3: // null an object
		return &LStmt{Key: []string{g.name()}, Val: LNull()}
	case 4: // attribute of an existing connection
		if len(sc.edges) == 0 {
			return &LStmt{Key: g.path()}
		}
		e := Pick(r, sc.edges)
		a := Pick(r, lgEdgeAttrs)
		return &LStmt{Src: e.src, Dst: e.dst, Arrow: e.arrow, Idx: "0", EKey: append([]string{}, a.key...), Val: LLit(a.val(r))}
	case 5: // null a connection
		if len(sc.edges) == 0 {
			return &LStmt{Key: g.path()}
		}
		i := r.Intn(len(sc.edges))
		e := sc.edges[i]
		// forget every connection between the same end points (indexes shift)
		var keep []lbEdge
		for _, o := range sc.edges {
			if !(fmt.Sprint(o.src) == fmt.Sprint(e.src) && fmt.Sprint(o.dst) == fmt.Sprint(e.dst) && o.arrow == e.arrow) {
				keep = append(keep, o)
			}
		}
		sc.edges = keep
		return &LStmt{Src: e.src, Dst: e.dst, Arrow: e.arrow, Idx: "0", Val: LNull()}
	case 6: // class use / redefinition
		if len(g.classes) == 0 {
			return &LStmt{Key: g.path(), Val: g.label()}
		}
		if r.P(0.3) && depth == 0 {
			return g.classesBlock()
		}
		return &LStmt{Key: append(g.path(), "class"), Val: LLit(Pick(r, g.classes))}
	case 7: // glob
		if depth == 0 && r.P(0.4) {
			// globs that target or create connections
			ar := Pick(r, []string{"->", "->", "--"})
			switch r.Intn(4) {
			case 0:
				a := Pick(r, lgEdgeAttrs)
				return &LStmt{Src: []string{"*"}, Dst: []string{"*"}, Arrow: ar, Idx: "*", EKey: append([]string{}, a.key...), Val: LLit(a.val(r)), Tag: "glob"}
			case 1:
				a := Pick(r, lgEdgeAttrs)
				return &LStmt{Src: []string{"*"}, Dst: []string{g.name()}, Arrow: ar, Idx: "*", EKey: append([]string{}, a.key...), Val: LLit(a.val(r)), Tag: "glob"}
			case 2:
				return &LStmt{Src: []string{"*"}, Dst: []string{g.name()}, Arrow: ar, Tag: "glob"}
			default:
				return &LStmt{Src: []string{g.name()}, Dst: []string{"*"}, Arrow: ar, Tag: "glob"}
			}
		}
		a := Pick(r, lgObjAttrs[:4])
		pat := Pick(r, []string{"*", "*", "**", "***", "***", "a*", "*.*"})
		key := append([]string{}, a.key...)
		if r.P(0.2) && pat != "*.*" {
			// the glob sets the object's primary (label) itself
			return &LStmt{Key: []string{pat}, Val: LLit(Pick(r, lgLabels)), Tag: "glob"}
		}
		if pat == "*.*" {
			return &LStmt{Key: append([]string{"*", "*"}, key...), Val: LLit(a.val(r)), Tag: "glob"}
		}
		return &LStmt{Key: append([]string{pat}, key...), Val: LLit(a.val(r)), Tag: "glob"}
	}
	s := &LStmt{Key: []string{g.name()}, HasBody: true}
	if r.P(0.3) {
		s.Val = g.label()
	}
	if depth < 1 {
		n := r.Range(1, 3)
		for i := 0; i < n; i++ {
			in := g.stmt(&lbScope{}, depth+1)
			if in.IsEdge() && in.Idx != "" {
				continue
			}
			s.Body = append(s.Body, in)
		}
	}
	return s
}

// body generates the statements of one board (root or nested): statements, board blocks in
// between, statements after.
func (g *boardGen) body(n int, sc *lbScope, level int, isRoot bool) []*LStmt {
	r := g.r
	var out []*LStmt
	for i := 0; i < n; i++ {
		out = append(out, g.stmt(sc, 0))
	}
	if level >= 2 || g.nBoards >= g.max {
		return out
	}
	kinds := []string{"layers", "scenarios", "steps"}
	r.Shuffle(len(kinds), func(i, j int) { kinds[i], kinds[j] = kinds[j], kinds[i] })
	nk := r.Range(1, 3)
	if !isRoot {
		nk = 0
		if r.P(0.35) {
			nk = 1
		}
	}
	for _, k := range kinds[:nk] {
		if g.nBoards >= g.max {
			break
		}
		blk := &LStmt{Key: []string{k}, HasBody: true, Tag: "boards"}
		nb := r.Range(1, 3)
		stepScope := sc.clone()
		for j := 0; j < nb && g.nBoards < g.max; j++ {
			g.nBoards++
			var bsc *lbScope
			switch k {
			case "layers":
				bsc = &lbScope{}
			case "scenarios":
				bsc = sc.clone()
			default:
				bsc = stepScope // steps accumulate
			}
			name := fmt.Sprintf("%s%d", map[string]string{"layers": "l", "scenarios": "sc", "steps": "st"}[k], j+1)
			bb := g.body(r.Range(1, 5), bsc, level+1, false)
			if j > 0 && r.P(0.5) {
				// sibling boards that add the SAME new objects / connections
				first := lbPlain(blk.Body[0].Body)
				for i := 0; i < len(first) && i < r.Range(1, 2); i++ {
					bb = append(LClone([]*LStmt{first[i]}), bb...)
				}
			}
			blk.Body = append(blk.Body, &LStmt{Key: []string{name}, HasBody: true, Body: bb})
		}
		out = append(out, blk)
		if r.P(0.35) && len(blk.Body) > 0 {
			// the base declares, after the block, what a board of the block declared
			if pl := lbPlain(Pick(r, blk.Body).Body); len(pl) > 0 {
				out = append(out, LClone([]*LStmt{Pick(r, pl)})...)
			}
		}
		// statements between / after board blocks
		for i := 0; i < r.Range(0, 2); i++ {
			out = append(out, g.stmt(sc, 0))
		}
	}
	return out
}

// lbPlain: the object / connection declarations of a board body (no board blocks, globs,
// nulls, indexed references).
func lbPlain(body []*LStmt) []*LStmt {
	var out []*LStmt
	for _, s := range body {
		if s.Raw != "" || s.Tag != "" || (s.Val != nil && s.Val.Null) || s.Idx != "" {
			continue
		}
		if !s.IsEdge() && len(s.Key) == 1 && (s.Key[0] == "layers" || s.Key[0] == "scenarios" || s.Key[0] == "steps" || s.Key[0] == "classes" || s.Key[0] == "vars") {
			continue
		}
		out = append(out, s)
	}
	return out
}
