package gen

// layout2_seq.go — targeted workload of C23: sequence diagrams with 1–8 actors (all shapes incl.
// person/image, explicit sizes, icons), 0–30 messages (all arrow kinds, labels of every length,
// unlabeled), spans (nested), notes, groups (nested), self / sibling / descendant messages;
// as the root board or as a container beside other shapes.
//
// The generator also returns what it wrote, in text order: the actors in order of first
// appearance and the messages — the monitor's expectation does not come from d2.

import (
	"fmt"
	"strings"
)

type L2SeqMsg struct {
	Src   string `json:"src"` // absolute ids as exported (groups do not prefix actors)
	Dst   string `json:"dst"`
	Label string `json:"label,omitempty"`
	// SrcActor / DstActor: the actor (absolute id) the endpoint belongs to
	SrcActor string `json:"sa"`
	DstActor string `json:"da"`
}

type L2Seq struct {
	Prefix string     `json:"prefix"` // "" (root sequence diagram) or "sd."
	Actors []string   `json:"actors"` // absolute ids in order of first appearance in the text
	Msgs   []L2SeqMsg `json:"msgs"`   // in text order
	Feats  []string   `json:"feats,omitempty"`
}

// L2SeqBoard renders one board.
func L2SeqBoard(r *R) (string, L2Seq) {
	w := &l2w{}
	var ex L2Seq
	feat := func(f string) { ex.Feats = append(ex.Feats, f) }
	nested := r.P(0.35)
	if nested {
		ex.Prefix = "sd."
		if r.P(0.5) {
			w.ln("direction: %s", r.Str("right", "down", "left", "up"))
		}
		if r.P(0.6) {
			w.ln("before -> sd")
		}
		w.ln("sd: {")
		w.ind++
		if r.P(0.5) {
			w.ln("label: %s", l2Quote(Pick(r, l2Words)))
		}
		feat("nested")
	} else {
		feat("root")
	}
	w.ln("shape: sequence_diagram")

	nA := r.Weighted(1, 3, 4, 4, 3, 2, 1, 1) + 1
	feat(fmt.Sprintf("actors_%d", nA))
	actors := make([]string, nA)
	for i := range actors {
		actors[i] = fmt.Sprintf("a%d", i)
	}
	seen := map[string]bool{}
	touch := func(a string) {
		if !seen[a] {
			seen[a] = true
			ex.Actors = append(ex.Actors, ex.Prefix+a)
		}
	}
	declare := func(a string) {
		touch(a)
		var body []string
		if r.P(0.4) {
			sh := Pick(r, []string{"person", "image", "oval", "circle", "square", "diamond", "cylinder", "queue", "hexagon", "cloud", "page", "package", "step", "callout", "stored_data", "document", "parallelogram", "c4-person", "text"}) // class/sql_table: children are fields, not spans
			body = append(body, "shape: "+sh)
			switch sh {
			case "image":
				body = append(body, "icon: https://icons.terrastruct.com/essentials/004-picture.svg")
			case "class":
				body = append(body, "+f: int")
			case "sql_table":
				body = append(body, "id: int")
			}
			feat("actor_" + sh)
		}
		if r.P(0.5) {
			lab, _ := L2Label(r)
			if lab == `""` {
				lab = `"Actor"`
			}
			body = append(body, "label: "+lab)
		}
		if r.P(0.15) {
			body = append(body, fmt.Sprintf("width: %d", Pick(r, []int{40, 120, 200, 300})))
			feat("actor_dims")
		}
		if r.P(0.15) {
			body = append(body, fmt.Sprintf("height: %d", Pick(r, []int{40, 120, 200, 300})))
		}
		if r.P(0.1) && !strings.Contains(strings.Join(body, " "), "shape: image") {
			body = append(body, "icon: https://icons.terrastruct.com/essentials/005-programmer.svg")
			feat("actor_icon")
		}
		if r.P(0.1) {
			body = append(body, fmt.Sprintf("style.font-size: %d", Pick(r, []int{10, 24, 36})))
		}
		// circle/square need equal width and height
		joined := strings.Join(body, "\n")
		if strings.Contains(joined, "shape: circle") || strings.Contains(joined, "shape: square") {
			var nb []string
			for _, l := range body {
				if !strings.HasPrefix(l, "height: ") {
					nb = append(nb, l)
				}
			}
			body = nb
		}
		if len(body) == 0 {
			w.ln("%s", a)
			return
		}
		w.ln("%s: {", a)
		w.ind++
		for _, l := range body {
			w.ln("%s", l)
		}
		w.ind--
		w.ln("}")
	}
	// explicit declarations up front (in a random order), the rest appear with their first message
	perm := r.Perm(nA)
	if r.P(0.6) {
		perm = nil
		for i := 0; i < nA; i++ {
			perm = append(perm, i)
		}
	} else {
		feat("actors_declared_out_of_index_order")
	}
	for _, i := range perm {
		if r.P(0.75) {
			declare(actors[i])
		}
	}

	nM := r.Weighted(1, 2, 5, 5, 3)
	switch nM {
	case 0:
		nM = 0
	case 1:
		nM = r.Range(1, 2)
	case 2:
		nM = r.Range(3, 8)
	case 3:
		nM = r.Range(8, 16)
	default:
		nM = r.Range(16, 30)
	}
	feat(fmt.Sprintf("msgs_%s", map[bool]string{true: "0", false: map[bool]string{true: "1-8", false: "9-30"}[nM <= 8]}[nM == 0]))

	spanNames := []string{"s", "t", "u"}
	endpoint := func(a string) string {
		// actor itself, a span, or a nested span
		switch r.Weighted(6, 3, 1) {
		case 1:
			feat("span")
			return a + "." + Pick(r, spanNames)
		case 2:
			feat("nested_span")
			return a + "." + Pick(r, spanNames) + "." + Pick(r, []string{"p", "q"})
		}
		return a
	}
	noteN, groupN := 0, 0
	depth := 0
	pickActor := func() string {
		if depth > 0 {
			return strings.TrimPrefix(Pick(r, ex.Actors), ex.Prefix)
		}
		return Pick(r, actors)
	}
	for k := 0; k < nM; k++ {
		// maybe open a group
		// (d2's scoping rule: an actor used inside a group must have been declared at the top
		// level before — so groups open only once two actors exist and use only those)
		if depth < 2 && r.P(0.12) && len(ex.Actors) >= 2 {
			w.ln("g%d: {", groupN)
			w.ind++
			if r.P(0.7) {
				lab, _ := L2Label(r)
				w.ln("label: %s", lab)
			}
			groupN++
			depth++
			feat("group")
			if depth == 2 {
				feat("nested_group")
			}
		}
		// maybe a note
		if r.P(0.1) {
			a := pickActor()
			touch(a)
			lab, _ := L2Label(r)
			if lab == `""` {
				lab = `"note"`
			}
			w.ln("%s.n%d: %s", a, noteN, lab)
			noteN++
			feat("note")
		}
		sa := pickActor()
		da := pickActor()
		var src, dst string
		switch {
		case nA == 1 || r.P(0.12):
			// same actor: self, sibling spans, descendant
			da = sa
			switch r.Intn(4) {
			case 0:
				src, dst = sa, sa
				feat("self_message_actor")
			case 1:
				src = sa + "." + Pick(r, spanNames)
				dst = src
				feat("self_message_span")
			case 2:
				src, dst = sa+".s", sa+".t"
				feat("sibling_span_message")
			default:
				src, dst = sa, sa+"."+Pick(r, spanNames)
				if r.P(0.5) {
					src, dst = dst, src
				}
				feat("descendant_message")
			}
		default:
			for da == sa {
				da = pickActor()
			}
			src, dst = endpoint(sa), endpoint(da)
		}
		touch(sa)
		touch(da)
		arrow := "->"
		if r.P(0.25) {
			arrow = r.Str("<-", "--", "<->")
		}
		label := ""
		if r.P(0.85) {
			label = fmt.Sprintf("m%d", k)
			switch r.Intn(6) {
			case 0:
				label += " " + Pick(r, l2Words) + " " + Pick(r, l2Words) + " " + Pick(r, l2Words) + " " + Pick(r, l2Words)
				feat("long_message_label")
			case 1:
				label += `\n` + Pick(r, l2Words) + `\n` + Pick(r, l2Words)
				feat("multiline_message_label")
			}
			w.ln("%s %s %s: %s", src, arrow, dst, l2Quote(label))
		} else {
			w.ln("%s %s %s", src, arrow, dst)
			feat("unlabeled_message")
		}
		ex.Msgs = append(ex.Msgs, L2SeqMsg{Src: ex.Prefix + src, Dst: ex.Prefix + dst, Label: strings.ReplaceAll(label, `\n`, "\n"), SrcActor: ex.Prefix + sa, DstActor: ex.Prefix + da})
		// maybe close a group
		for depth > 0 && r.P(0.3) {
			w.ind--
			w.ln("}")
			depth--
		}
	}
	for depth > 0 {
		w.ind--
		w.ln("}")
		depth--
	}
	// actors never mentioned so far are declared at the end
	for _, a := range actors {
		if !seen[a] {
			declare(a)
		}
	}
	if nested {
		w.ind--
		w.ln("}")
		if r.P(0.5) {
			w.ln("sd -> after: %s", l2Quote(Pick(r, l2Words)))
		}
	}
	return w.b.String(), ex
}
