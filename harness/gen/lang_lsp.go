package gen

import "fmt"

// LspProgram generates an explicit (glob-free, import-free) program for C42: objects with plain,
// quoted, non-ASCII and case-variant names, nested maps, attributes, connections, and nested
// layers / scenarios / steps blocks up to three boards deep.
type lspGen struct {
	r      *R
	boards int
}

var llNames = []string{"a", "b", "c", "d", `"x y"`, "ä", "A", `'q.r'`, "n1"}

func LspProgram(r *R, big bool) []*LStmt {
	g := &lspGen{r: r}
	n := r.Range(2, 6)
	if big {
		n = r.Range(4, 12)
	}
	return g.board(n, 0)
}

func (g *lspGen) name() string { return Pick(g.r, llNames) }

func (g *lspGen) path() []string {
	switch g.r.Intn(6) {
	case 0:
		return []string{g.name(), g.name()}
	case 1:
		return []string{g.name(), g.name(), g.name()}
	}
	return []string{g.name()}
}

func (g *lspGen) stmt(depth int) *LStmt {
	r := g.r
	switch r.Weighted(30, 25, 22, 5, 18) {
	case 0:
		s := &LStmt{Key: g.path()}
		if r.P(0.5) {
			s.Val = LLit(Pick(r, lgLabels))
		}
		return s
	case 1:
		a := Pick(r, lgObjAttrs)
		return &LStmt{Key: append(g.path(), a.key...), Val: LLit(a.val(r))}
	case 2:
		s := &LStmt{Src: g.path(), Dst: g.path(), Arrow: Pick(r, []string{"->", "->", "--", "<-", "<->"})}
		if r.P(0.4) {
			s.Val = LLit(Pick(r, lgLabels))
		}
		if r.P(0.2) {
			s.Body = []*LStmt{{Key: []string{"style", "stroke"}, Val: LLit(Pick(r, lgColors))}}
		}
		return s
	case 3:
		return &LStmt{Key: append(g.path(), "style"), Body: []*LStmt{{Key: []string{"fill"}, Val: LLit(Pick(r, lgColors))}}}
	}
	s := &LStmt{Key: []string{g.name()}, HasBody: true}
	if r.P(0.3) {
		s.Val = LLit(Pick(r, lgLabels))
	}
	if depth < 2 {
		n := r.Range(0, 3)
		for i := 0; i < n; i++ {
			s.Body = append(s.Body, g.stmt(depth+1))
		}
	}
	return s
}

func (g *lspGen) board(n, level int) []*LStmt {
	r := g.r
	var out []*LStmt
	for i := 0; i < n; i++ {
		out = append(out, g.stmt(0))
	}
	if level >= 3 || g.boards >= 7 {
		return out
	}
	kinds := []string{"layers", "scenarios", "steps"}
	r.Shuffle(len(kinds), func(i, j int) { kinds[i], kinds[j] = kinds[j], kinds[i] })
	nk := r.Range(0, 2)
	if level == 0 {
		nk = r.Range(1, 3)
	}
	for _, k := range kinds[:nk] {
		blk := &LStmt{Key: []string{k}, HasBody: true, Tag: "boards"}
		nb := r.Range(0, 2)
		for j := 0; j < nb; j++ {
			g.boards++
			name := fmt.Sprintf("%s%d", map[string]string{"layers": "l", "scenarios": "sc", "steps": "st"}[k], g.boards)
			blk.Body = append(blk.Body, &LStmt{Key: []string{name}, HasBody: true, Body: g.board(r.Range(0, 3), level+1)})
			if r.P(0.3) {
				// something between the boards of one block
				blk.Body = append(blk.Body, &LStmt{Raw: "# between boards"})
			}
		}
		if r.P(0.06) && nb > 0 {
			// path form `layers.x: {…}` instead of a block
			b := blk.Body[0]
			out = append(out, &LStmt{Key: []string{k, b.Key[0]}, HasBody: true, Body: b.Body, Tag: "board-path-form"})
			continue
		}
		out = append(out, blk)
		if r.P(0.5) {
			out = append(out, g.stmt(0))
		}
	}
	return out
}
