package gen

import (
	"fmt"
	"strings"
)

// core.go — structured generator for the core fragment of D2 (C10, C11): nested keys,
// labels, shapes, style attributes, connections (chains, `_`-relative, nested scopes),
// indexed references, null assignments; few names, in several spellings, so that
// redeclarations collide. Produces a CoreStmt program (interpreted by the reference
// model) and its rendering as D2 text.

// ---- program AST (interpreted by the reference model model/core.go) ----

type CoreEnd struct {
	Under int      `json:"under,omitempty"` // leading `_` elements
	Path  []string `json:"path"`
}

type CoreAttr struct {
	Name  string  `json:"name"`  // label | shape | style.<k>
	Value *string `json:"value"` // nil = null
}

type CoreStmt struct {
	Kind string `json:"kind"` // decl | attr | null | edge | eref

	// decl / attr / null
	Path  []string   `json:"path,omitempty"`
	Label *string    `json:"label,omitempty"`
	Body  []CoreStmt `json:"body"`
	Attr  *CoreAttr  `json:"attr,omitempty"`

	// edge: Ends[0] Arrows[0] Ends[1] Arrows[1] Ends[2] …; eref: exactly two ends
	Ends   []CoreEnd  `json:"ends,omitempty"`
	Arrows []string   `json:"arrows,omitempty"` // -> <- -- <->
	Attrs  []CoreAttr `json:"attrs,omitempty"`  // edge body / eref attribute
	Index  int        `json:"index,omitempty"`
	Null   bool       `json:"null,omitempty"` // eref: whole connection null
}

type CoreOpts struct {
	MinStmts, MaxStmts int
	MaxDepth           int
	Names              int     // size of the name pool
	PEdge              float64 // share of connection statements
	PRef               float64 // share of indexed references
	PNull              float64 // share of null statements
	PLabelKeyword      float64 // `label:` keyword instead of the shorthand
	PMissingIndex      float64 // references to an index that (probably) does not exist
	PEdgeAttrNull      float64
	Dense              bool // C11: few endpoints, many parallel connections
}

var CoreDefault = CoreOpts{MinStmts: 3, MaxStmts: 40, MaxDepth: 3, Names: 5, PEdge: .28, PRef: .12, PNull: .12, PLabelKeyword: .04, PMissingIndex: .01, PEdgeAttrNull: .015}
var CoreDense = CoreOpts{MinStmts: 4, MaxStmts: 24, MaxDepth: 2, Names: 3, PEdge: .5, PRef: .25, PNull: .06, PLabelKeyword: 0, PMissingIndex: .04, PEdgeAttrNull: 0, Dense: true}

var coreNamePool = [][]string{
	{"a", "A"}, {"b", "B"}, {"c", "C"}, {"d", "D"}, {"ab", "Ab", "AB", "aB"}, {"x1", "X1"}, {"é", "É"}, {"n_m", "N_M"}, {"zz", "ZZ", "Zz"},
}

var coreShapes = []string{"rectangle", "square", "page", "parallelogram", "document", "cylinder", "queue", "package", "step", "callout", "stored_data", "person", "diamond", "oval", "circle", "hexagon", "cloud"}
var coreColors = []string{"red", "blue", "green", "orange", "black", "white", "purple", "yellow"}

type coreEdgeRec struct {
	a, b  CoreEnd
	arrow string
}

type coreGen struct {
	r     *R
	o     CoreOpts
	names [][]string
	nlbl  int
	// connections written so far, per open scope (innermost last): indexed references
	// mostly re-use them so that they hit
	made [][]coreEdgeRec
}

func (g *coreGen) name() string {
	v := Pick(g.r, g.names)
	if g.r.P(0.3) {
		return Pick(g.r, v)
	}
	return v[0]
}

func (g *coreGen) path() []string {
	n := 1
	if g.r.P(0.35) {
		n = g.r.Range(2, 3)
	}
	if g.o.Dense && n > 2 {
		n = 2
	}
	p := make([]string, n)
	for i := range p {
		p[i] = g.name()
	}
	return p
}

func (g *coreGen) label() *string {
	g.nlbl++
	s := fmt.Sprintf("L%d", g.nlbl)
	if g.r.P(0.1) {
		s = fmt.Sprintf("two words %d", g.nlbl)
	}
	return &s
}

func sp(s string) *string { return &s }

func (g *coreGen) objAttr(allowNull bool) CoreAttr {
	r := g.r
	var a CoreAttr
	switch r.Intn(7) {
	case 0:
		a = CoreAttr{Name: "shape", Value: sp(Pick(r, coreShapes))}
	case 1:
		a = CoreAttr{Name: "style.fill", Value: sp(Pick(r, coreColors))}
	case 2:
		a = CoreAttr{Name: "style.stroke", Value: sp(Pick(r, coreColors))}
	case 3:
		a = CoreAttr{Name: "style.opacity", Value: sp(Pick(r, []string{"0.1", "0.4", "0.75", "1"}))}
	case 4:
		a = CoreAttr{Name: "style.stroke-width", Value: sp(fmt.Sprint(r.Range(1, 12)))}
	case 5:
		a = CoreAttr{Name: "style.bold", Value: sp(r.Str("true", "false"))}
	default:
		a = CoreAttr{Name: "style.font-size", Value: sp(fmt.Sprint(r.Range(8, 40)))}
	}
	if r.P(g.o.PLabelKeyword * 3) {
		a = CoreAttr{Name: "label", Value: g.label()}
	}
	if allowNull && r.P(0.5) {
		a.Value = nil
		if r.P(0.1) {
			a.Name = "style"
		}
	}
	return a
}

func (g *coreGen) edgeAttr() CoreAttr {
	r := g.r
	switch r.Intn(4) {
	case 0:
		return CoreAttr{Name: "style.stroke", Value: sp(Pick(r, coreColors))}
	case 1:
		return CoreAttr{Name: "style.opacity", Value: sp(Pick(r, []string{"0.1", "0.4", "0.75", "1"}))}
	case 2:
		return CoreAttr{Name: "style.stroke-width", Value: sp(fmt.Sprint(r.Range(1, 12)))}
	}
	return CoreAttr{Name: "style.animated", Value: sp(r.Str("true", "false"))}
}

func (g *coreGen) end(depth int) CoreEnd {
	e := CoreEnd{Path: g.path()}
	if depth > 0 && g.r.P(0.12) {
		e.Under = 1
		if depth > 1 && g.r.P(0.3) {
			e.Under = 2
		}
	}
	return e
}

func (g *coreGen) stmt(depth int) CoreStmt {
	r, o := g.r, g.o
	switch x := r.Float64(); {
	case x < o.PEdge || (x < o.PEdge+o.PRef && len(g.made[len(g.made)-1]) == 0):
		s := CoreStmt{Kind: "edge"}
		n := 2
		if r.P(0.15) {
			n = r.Range(3, 4)
		}
		for i := 0; i < n; i++ {
			s.Ends = append(s.Ends, g.end(depth))
			if i > 0 {
				ar := "->"
				if r.P(0.35) {
					ar = Pick(r, Arrows)
				}
				s.Arrows = append(s.Arrows, ar)
			}
		}
		for i := range s.Arrows {
			top := len(g.made) - 1
			g.made[top] = append(g.made[top], coreEdgeRec{s.Ends[i], s.Ends[i+1], s.Arrows[i]})
		}
		if r.P(0.5) {
			s.Label = g.label()
		}
		if r.P(0.15) {
			for i := 0; i < r.Range(1, 2); i++ {
				s.Attrs = append(s.Attrs, g.edgeAttr())
			}
			if r.P(o.PLabelKeyword * 5) {
				s.Attrs = append(s.Attrs, CoreAttr{Name: "label", Value: g.label()})
			}
		}
		return s
	case x < o.PEdge+o.PRef:
		s := CoreStmt{Kind: "eref", Ends: []CoreEnd{g.end(depth), g.end(depth)}, Arrows: []string{"->"}}
		if r.P(0.35) {
			s.Arrows[0] = Pick(r, Arrows)
		}
		known := 0
		if top := g.made[len(g.made)-1]; len(top) > 0 && r.P(0.96) {
			e := Pick(r, top)
			s.Ends = []CoreEnd{e.a, e.b}
			s.Arrows = []string{e.arrow}
			for _, o := range top { // textual occurrences of the same connection in this scope
				if strings.EqualFold(coreEnd(o.a), coreEnd(e.a)) && strings.EqualFold(coreEnd(o.b), coreEnd(e.b)) && o.arrow == e.arrow {
					known++
				}
			}
			if r.P(0.15) { // other spelling of the same names
				for i := range s.Ends {
					p := append([]string{}, s.Ends[i].Path...)
					for j := range p {
						if r.P(0.5) {
							p[j] = strings.ToUpper(p[j])
						}
					}
					s.Ends[i].Path = p
				}
			}
		}
		s.Index = r.Weighted(6, 3, 1)
		if known > 0 {
			s.Index = r.Intn(known)
		}
		if r.P(o.PMissingIndex) {
			s.Index = known + r.Range(0, 2)
		}
		switch y := r.Float64(); {
		case y < 0.3:
			s.Null = true
		case y < 0.6:
			s.Label = g.label()
		case y < 0.6+o.PEdgeAttrNull:
			a := g.edgeAttr()
			a.Value = nil
			s.Attrs = []CoreAttr{a}
		case y < 0.65 && o.PLabelKeyword > 0:
			s.Attrs = []CoreAttr{{Name: "label", Value: g.label()}}
		default:
			s.Attrs = []CoreAttr{g.edgeAttr()}
		}
		return s
	case x < o.PEdge+o.PRef+o.PNull:
		if r.P(0.6) {
			return CoreStmt{Kind: "null", Path: g.path()}
		}
		a := g.objAttr(true)
		a.Value = nil
		return CoreStmt{Kind: "attr", Path: g.path(), Attr: &a}
	case x < o.PEdge+o.PRef+o.PNull+0.2:
		a := g.objAttr(false)
		return CoreStmt{Kind: "attr", Path: g.path(), Attr: &a}
	}
	s := CoreStmt{Kind: "decl", Path: g.path()}
	if r.P(0.45) {
		s.Label = g.label()
	}
	if depth < o.MaxDepth && r.P(0.3) {
		n := r.Range(0, 4)
		s.Body = []CoreStmt{}
		g.made = append(g.made, nil)
		for i := 0; i < n; i++ {
			s.Body = append(s.Body, g.stmt(depth+1))
		}
		g.made = g.made[:len(g.made)-1]
	}
	return s
}

// Core generates one program of the core fragment.
func Core(r *R, o CoreOpts) []CoreStmt {
	g := &coreGen{r: r, o: o, made: [][]coreEdgeRec{nil}}
	perm := r.Perm(len(coreNamePool))
	for i := 0; i < o.Names && i < len(perm); i++ {
		g.names = append(g.names, coreNamePool[perm[i]])
	}
	n := r.Range(o.MinStmts, o.MaxStmts)
	var prog []CoreStmt
	for i := 0; i < n; i++ {
		prog = append(prog, g.stmt(0))
	}
	return prog
}

// ---- rendering ----

func coreKey(path []string) string {
	parts := make([]string, len(path))
	for i, p := range path {
		parts[i] = p
		if strings.ContainsAny(p, " .") {
			parts[i] = Quote(p)
		}
	}
	return strings.Join(parts, ".")
}

func coreEnd(e CoreEnd) string {
	return strings.Repeat("_.", e.Under) + coreKey(e.Path)
}

func coreVal(s string) string {
	if IsPlainText(s) || strings.Trim(s, "0123456789.") == "" || s == "true" || s == "false" {
		return s
	}
	return Quote(s)
}

func coreAttrText(a CoreAttr) string {
	if a.Value == nil {
		return a.Name + ": null"
	}
	return a.Name + ": " + coreVal(*a.Value)
}

// CoreText renders a core program as D2 text.
func CoreText(prog []CoreStmt) string {
	var sb strings.Builder
	coreRender(&sb, prog, 0, nil, nil)
	return sb.String()
}

// CoreLines returns, for every statement (addressed by its index path, e.g. "3/0/2"), the
// 0-based line on which it starts in CoreText(prog).
func CoreLines(prog []CoreStmt) map[string]int {
	var sb strings.Builder
	lines := map[string]int{}
	coreRender(&sb, prog, 0, nil, func(path []int) {
		var parts []string
		for _, i := range path {
			parts = append(parts, fmt.Sprint(i))
		}
		lines[strings.Join(parts, "/")] = strings.Count(sb.String(), "\n")
	})
	return lines
}

func coreRender(sb *strings.Builder, prog []CoreStmt, d int, pre []int, at func(path []int)) {
	ind := strings.Repeat("  ", d)
	for i, s := range prog {
		path := append(append([]int{}, pre...), i)
		if at != nil {
			at(path)
		}
		sb.WriteString(ind)
		switch s.Kind {
		case "decl":
			sb.WriteString(coreKey(s.Path))
			if s.Label != nil {
				sb.WriteString(": " + coreVal(*s.Label))
			}
			if s.Body != nil {
				if s.Label == nil {
					sb.WriteString(":")
				}
				sb.WriteString(" {\n")
				coreRender(sb, s.Body, d+1, path, at)
				sb.WriteString(ind + "}")
			}
		case "attr":
			sb.WriteString(coreKey(s.Path) + "." + coreAttrText(*s.Attr))
		case "null":
			sb.WriteString(coreKey(s.Path) + ": null")
		case "edge":
			for i, e := range s.Ends {
				if i > 0 {
					sb.WriteString(" " + s.Arrows[i-1] + " ")
				}
				sb.WriteString(coreEnd(e))
			}
			if s.Label != nil {
				sb.WriteString(": " + coreVal(*s.Label))
			}
			if len(s.Attrs) > 0 {
				if s.Label == nil {
					sb.WriteString(":")
				}
				sb.WriteString(" {")
				for i, a := range s.Attrs {
					if i > 0 {
						sb.WriteString("; ")
					}
					sb.WriteString(coreAttrText(a))
				}
				sb.WriteString("}")
			}
		case "eref":
			fmt.Fprintf(sb, "(%s %s %s)[%d]", coreEnd(s.Ends[0]), s.Arrows[0], coreEnd(s.Ends[1]), s.Index)
			switch {
			case s.Null:
				sb.WriteString(": null")
			case s.Label != nil:
				sb.WriteString(": " + coreVal(*s.Label))
			case len(s.Attrs) > 0:
				sb.WriteString("." + coreAttrText(s.Attrs[0]))
			}
		}
		sb.WriteString("\n")
	}
}
