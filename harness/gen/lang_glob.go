package gen

import "strings"

// GlobProgram generates a program of the C12 fragment: explicit object / attribute / connection
// declarations over a small name alphabet (ASCII, case variants, non-ASCII case pairs), nested
// blocks, optionally layers, and one to four glob statements (field globs with `*`, affix
// patterns, `**`, `***`, filters; connection-creating globs; connection-reference globs)
// interleaved with explicit declarations before and after.
type globGen struct {
	r      *R
	names  []string
	frags  []string
	nGlobs int
	maxG   int
	nStmt  int
	big    bool
	decl   []string // names declared so far in the block being generated (literal glob segments prefer them)
	// encl: per enclosing block (outermost first), the glob statements declared in it so far;
	// the same glob text is repeated in nested, enclosing and sibling scopes on purpose (every
	// declaration is its own glob with its own lexical scope)
	encl [][]*LStmt
}

var (
	lgASCII   = []string{"a", "b", "ab", "ba", "aab", "abc", "bca", "b1", "a1b", "xa", "ax", "aa", "bab"}
	lgCase    = []string{"Ab", "AB", "aB", "BA", "Xa", "ABC"}
	lgNonASC  = []string{"éa", "Éb", "aé", "bÉ", "ñ", "Ñx", "жa", "Жb", "aж"}
	lgSpecial = []string{"σa", "aς", "Σb", "ßa", "Ka", "ſa"}
	lgShapes  = []string{"circle", "oval", "diamond", "hexagon", "cloud", "square", "rectangle"}
	lgColors  = []string{"red", "blue", "green", "orange"}
	lgLabels  = []string{"ab", "hello", "a b", "Ab", "x1", "ba"}
)

func GlobProgram(r *R, big bool) []*LStmt {
	g := &globGen{r: r, big: big}
	n := r.Range(3, 6)
	pool := append([]string{}, lgASCII...)
	if r.P(0.5) {
		pool = append(pool, lgCase...)
	}
	if r.P(0.4) {
		pool = append(pool, lgNonASC...)
	}
	if r.P(0.08) {
		pool = append(pool, lgSpecial...)
	}
	seen := map[string]bool{}
	for len(g.names) < n {
		nm := Pick(r, pool)
		if !seen[strings.ToLower(nm)] || r.P(0.15) {
			seen[strings.ToLower(nm)] = true
			g.names = append(g.names, nm)
		}
	}
	// pattern fragments: pieces of the names in use (so that patterns hit and miss)
	for _, nm := range g.names {
		rs := []rune(nm)
		g.frags = append(g.frags, string(rs[:1]), string(rs[len(rs)-1:]))
		if len(rs) > 1 {
			g.frags = append(g.frags, string(rs[:2]))
		}
	}
	g.frags = append(g.frags, "a", "b", "A", "x")
	g.maxG = r.Range(1, 4)
	total := r.Range(5, 14)
	if big {
		total = r.Range(8, 24)
	}
	out := g.stmts(total, 0, false)
	// a filtered glob is only judged when nothing follows it: put most of them last
	for i := 0; i < len(out); i++ {
		s := out[i]
		if s.Tag == "glob" && len(s.Body) > 0 && s.Body[0].Tag == "filter" && r.P(0.75) && i != len(out)-1 {
			out = append(append(out[:i:i], out[i+1:]...), s)
			break
		}
	}
	if r.P(0.22) {
		// layers, possibly with a board-wide glob before or after
		tri := g.tripleGlob()
		lay := &LStmt{Key: []string{"layers"}, HasBody: true}
		for i := 0; i < r.Range(1, 2); i++ {
			body := g.stmts(r.Range(2, 5), 1, true)
			if r.P(0.25) {
				body = append(body, &LStmt{Key: []string{"layers"}, HasBody: true, Body: []*LStmt{{Key: []string{"n1"}, HasBody: true, Body: g.stmts(r.Range(1, 3), 2, true)}}})
			}
			lay.Body = append(lay.Body, &LStmt{Key: []string{Pick(r, []string{"l1", "l2"})}, HasBody: true, Body: body})
		}
		switch r.Intn(4) {
		case 0:
			out = append(out, lay, tri)
		case 1:
			at := r.Intn(len(out) + 1)
			out = append(out[:at:at], append([]*LStmt{tri}, out[at:]...)...)
			out = append(out, lay)
		case 2:
			out = append([]*LStmt{tri}, append(out, lay)...)
			if r.P(0.4) {
				out = append(out, g.explicit(0))
			}
		default:
			out = append(out, lay)
		}
	}
	return out
}

func (g *globGen) name() string { return Pick(g.r, g.names) }

// litName: a literal name inside a glob key; mostly one that exists already (a glob key naming
// an absent object is outside the judged fragment).
func (g *globGen) litName() string {
	if len(g.decl) > 0 && g.r.P(0.9) {
		return Pick(g.r, g.decl)
	}
	return g.name()
}

func (g *globGen) pattern() string {
	r := g.r
	f := func() string { return Pick(r, g.frags) }
	switch r.Weighted(5, 3, 3, 2, 1) {
	case 0:
		return "*"
	case 1:
		return f() + "*"
	case 2:
		return "*" + f()
	case 3:
		return f() + "*" + f()
	}
	return "*" + f() + "*"
}

type lgAttr struct {
	key []string
	val func(r *R) string
}

var lgObjAttrs = []lgAttr{
	{[]string{"shape"}, func(r *R) string { return Pick(r, lgShapes) }},
	{[]string{"style", "fill"}, func(r *R) string { return Pick(r, lgColors) }},
	{[]string{"style", "stroke"}, func(r *R) string { return Pick(r, lgColors) }},
	{[]string{"style", "opacity"}, func(r *R) string { return Pick(r, []string{"0.2", "0.5", "0.9"}) }},
	{[]string{"label"}, func(r *R) string { return Pick(r, lgLabels) }},
	{[]string{"tooltip"}, func(r *R) string { return Pick(r, lgLabels) }},
	{[]string{"style", "bold"}, func(r *R) string { return Pick(r, []string{"true", "false"}) }},
}

var lgEdgeAttrs = []lgAttr{
	{[]string{"label"}, func(r *R) string { return Pick(r, lgLabels) }},
	{[]string{"style", "stroke"}, func(r *R) string { return Pick(r, lgColors) }},
	{[]string{"style", "opacity"}, func(r *R) string { return Pick(r, []string{"0.2", "0.5", "0.9"}) }},
	{[]string{"style", "animated"}, func(r *R) string { return Pick(r, []string{"true", "false"}) }},
	{[]string{"style", "stroke-dash"}, func(r *R) string { return Pick(r, []string{"2", "5"}) }},
	{[]string{"target-arrowhead", "shape"}, func(r *R) string { return Pick(r, []string{"diamond", "circle", "arrow"}) }},
}

func (g *globGen) attrBody(attrs []lgAttr, n int) []*LStmt {
	var out []*LStmt
	for i := 0; i < n; i++ {
		a := Pick(g.r, attrs)
		out = append(out, &LStmt{Key: append([]string{}, a.key...), Val: LLit(a.val(g.r))})
	}
	return out
}

func (g *globGen) filter() *LStmt {
	r := g.r
	neg := ""
	if r.P(0.3) {
		neg = "!"
	}
	var f string
	switch r.Intn(5) {
	case 0, 1:
		f = "&shape: " + Pick(r, []string{"circle", "rectangle", "oval"})
	case 2:
		pat := g.pattern()
		for pat == "*" {
			pat = g.pattern() // `&label: *` means "has a label field" in d2, not a pattern
		}
		f = "&label: " + strings.ToLower(pat)
	case 3:
		f = "&label: " + Pick(r, append([]string{"ab", "hello"}, g.names...))
	default:
		f = "&style.fill: " + Pick(r, lgColors)
	}
	return &LStmt{Raw: neg + f, Tag: "filter"}
}

func (g *globGen) tripleGlob() *LStmt {
	r := g.r
	a := Pick(r, lgObjAttrs)
	if r.P(0.3) {
		return &LStmt{Key: []string{"***"}, Body: g.attrBody(lgObjAttrs, r.Range(1, 2)), HasBody: true, Tag: "glob"}
	}
	return &LStmt{Key: append([]string{"***"}, a.key...), Val: LLit(a.val(r)), Tag: "glob"}
}

func (g *globGen) glob(depth int) *LStmt {
	r := g.r
	g.nGlobs++
	switch r.Weighted(60, 20, 20) {
	case 1: // connection-creating glob
		s := &LStmt{Arrow: Pick(r, []string{"->", "->", "--", "<-", "<->"}), Tag: "glob"}
		switch r.Intn(4) {
		case 0:
			s.Src, s.Dst = []string{g.pattern()}, []string{g.litName()}
		case 1:
			s.Src, s.Dst = []string{g.litName()}, []string{g.pattern()}
		default:
			s.Src, s.Dst = []string{g.pattern()}, []string{g.pattern()}
		}
		if r.P(0.4) {
			s.Body = g.attrBody(lgEdgeAttrs, r.Range(1, 2))
		} else if r.P(0.2) {
			s.Val = LLit(Pick(r, lgLabels))
		}
		return s
	case 2: // connection-reference glob
		s := &LStmt{Arrow: Pick(r, []string{"->", "->", "->", "--", "<-", "<->"}), Idx: "*", Tag: "glob"}
		switch r.Intn(5) {
		case 0:
			s.Src, s.Dst = []string{g.litName()}, []string{g.pattern()}
		case 1:
			s.Src, s.Dst = []string{g.pattern()}, []string{g.litName()}
		default:
			s.Src, s.Dst = []string{g.pattern()}, []string{g.pattern()}
		}
		if r.P(0.12) {
			s.Idx = "0"
		}
		if r.P(0.15) {
			s.Key = []string{g.litName()}
		}
		if r.P(0.35) {
			s.Body = g.attrBody(lgEdgeAttrs, r.Range(1, 2))
		} else {
			a := Pick(r, lgEdgeAttrs)
			s.EKey, s.Val = append([]string{}, a.key...), LLit(a.val(r))
		}
		return s
	}
	// field glob
	var segs []string
	switch r.Weighted(50, 12, 12, 12, 6) {
	case 0:
		segs = []string{g.pattern()}
	case 1:
		segs = []string{g.pattern(), g.pattern()}
	case 2:
		segs = []string{g.litName(), g.pattern()}
	case 3:
		segs = []string{"**"}
	default:
		segs = []string{g.litName(), "**"}
	}
	s := &LStmt{Tag: "glob"}
	switch r.Weighted(55, 35, 10) {
	case 0:
		a := Pick(r, lgObjAttrs)
		s.Key, s.Val = append(segs, a.key...), LLit(a.val(r))
	case 1:
		s.Key, s.HasBody = segs, true
		if r.P(0.45) {
			s.Body = append(s.Body, g.filter())
			if r.P(0.2) {
				s.Body = append(s.Body, g.filter())
			}
		}
		s.Body = append(s.Body, g.attrBody(lgObjAttrs, r.Range(1, 3))...)
	default:
		s.Key, s.Val = segs, LLit(Pick(r, lgLabels))
	}
	return s
}

func (g *globGen) path() []string {
	if g.r.P(0.25) {
		return []string{g.name(), g.name()}
	}
	return []string{g.name()}
}

// explicit returns one explicit (glob-free) statement.
func (g *globGen) explicit(depth int) *LStmt {
	r := g.r
	switch r.Weighted(60, 44, 50, 16, 1, 22) {
	case 0: // object, maybe labelled
		s := &LStmt{Key: g.path()}
		if r.P(0.4) {
			s.Val = LLit(Pick(r, lgLabels))
		}
		return s
	case 1: // attribute
		a := Pick(r, lgObjAttrs)
		return &LStmt{Key: append(g.path(), a.key...), Val: LLit(a.val(r))}
	case 2: // connection
		s := &LStmt{Src: g.path(), Dst: g.path(), Arrow: Pick(r, []string{"->", "->", "->", "--", "<-", "<->"})}
		if r.P(0.3) {
			s.Val = LLit(Pick(r, lgLabels))
		}
		if r.P(0.3) {
			s.Body = g.attrBody(lgEdgeAttrs, r.Range(1, 2))
		}
		return s
	case 3: // attribute map
		return &LStmt{Key: append(g.path(), "style"), Body: []*LStmt{
			{Key: []string{"fill"}, Val: LLit(Pick(r, lgColors))}, {Key: []string{"stroke"}, Val: LLit(Pick(r, lgColors))}}}
	case 4: // deletion (and later statements may recreate)
		return &LStmt{Key: []string{g.name()}, Val: LNull()}
	}
	// nested block
	s := &LStmt{Key: []string{g.name()}, HasBody: true}
	if r.P(0.25) {
		s.Val = LLit(Pick(r, lgLabels))
	}
	if depth < 2 {
		s.Body = g.stmts(r.Range(1, 5), depth+1, false)
	}
	return s
}

// stmts generates n statements for a block; globs are interleaved while the budget lasts.
func (g *globGen) stmts(n, depth int, boardRoot bool) []*LStmt {
	r := g.r
	var out []*LStmt
	var edges []*LStmt
	savedDecl := g.decl
	g.decl = nil
	savedEncl := g.encl
	if boardRoot {
		g.encl = nil // another board: only *** reaches it
	}
	g.encl = append(append([][]*LStmt(nil), g.encl...), nil)
	me := len(g.encl) - 1
	defer func() { g.decl = savedDecl; g.encl = savedEncl }()
	var sibling []*LStmt // globs declared directly inside earlier nested blocks of this block
	cloneable := func(s *LStmt) bool {
		if s.Tag != "glob" || (len(s.Body) > 0 && s.Body[0].Tag == "filter") {
			return false
		}
		for _, l := range [][]string{s.Key, s.Src, s.Dst} {
			for _, k := range l {
				if k == "***" {
					return false
				}
			}
		}
		return true
	}
	for i := 0; i < n; i++ {
		g.nStmt++
		pg := 0.22
		if depth > 0 {
			pg = 0.15
		}
		if g.nGlobs < g.maxG && (r.P(pg) || (depth == 0 && i == n/2 && g.nGlobs == 0)) {
			gs := g.glob(depth)
			g.encl[me] = append(g.encl[me], gs)
			out = append(out, gs)
			continue
		}
		if len(edges) > 0 && r.P(0.08) {
			e := Pick(r, edges)
			a := Pick(r, lgEdgeAttrs)
			out = append(out, &LStmt{Src: e.Src, Dst: e.Dst, Arrow: e.Arrow, Idx: "0", EKey: append([]string{}, a.key...), Val: LLit(a.val(r))})
			continue
		}
		s := g.explicit(depth)
		if s.IsEdge() {
			edges = append(edges, s)
			g.decl = append(g.decl, s.Src[0], s.Dst[0])
		} else if len(s.Key) > 0 && !(s.Val != nil && s.Val.Null) {
			g.decl = append(g.decl, s.Key[0])
		}
		out = append(out, s)
		if !s.IsEdge() && s.HasBody && len(s.Key) == 1 && depth < 2 {
			// a nested block was generated
			var inner []*LStmt
			for _, b := range s.Body {
				if cloneable(b) {
					inner = append(inner, b)
				}
			}
			if len(sibling) > 0 && r.P(0.2) {
				// the same glob text in a sibling scope
				c := LClone([]*LStmt{Pick(r, sibling)})[0]
				at := r.Intn(len(s.Body) + 1)
				s.Body = append(s.Body[:at:at], append([]*LStmt{c}, s.Body[at:]...)...)
				s.Body = append(s.Body, g.explicit(depth+1))
			}
			if len(inner) > 0 && r.P(0.25) {
				// the same glob text declared in the enclosing scope *after* the inner block
				// (not when this block already holds that text: a verbatim repetition inside one
				// scope is finding FL09's trigger)
				c := LClone([]*LStmt{Pick(r, inner)})[0]
				dup := false
				for _, o := range g.encl[me] {
					if LRender([]*LStmt{o}) == LRender([]*LStmt{c}) {
						dup = true
					}
				}
				if !dup {
					g.encl[me] = append(g.encl[me], c)
					out = append(out, c)
				}
			}
			sibling = append(sibling, inner...)
		}
	}
	if depth > 0 && !boardRoot {
		// the same glob text as a glob of an enclosing scope (one, two or three levels up),
		// with targets created before and after the inner declaration
		var cands []*LStmt
		for _, lvl := range g.encl[:me] {
			for _, gs := range lvl {
				if cloneable(gs) {
					cands = append(cands, gs)
				}
			}
		}
		if len(cands) > 0 && r.P(0.45) {
			c := LClone([]*LStmt{Pick(r, cands)})[0]
			for _, o := range g.encl[me] {
				if LRender([]*LStmt{o}) == LRender([]*LStmt{c}) {
					return out // this block already declares that text
				}
			}
			at := 0
			if len(out) > 0 {
				at = r.Range(0, len(out)-1)
				if r.P(0.6) && len(out) > 1 {
					at = r.Range(1, len(out)-1)
				}
			}
			out = append(out[:at:at], append([]*LStmt{c}, out[at:]...)...)
			g.encl[me] = append(g.encl[me], c)
			if at >= len(out)-1 || r.P(0.5) {
				// make sure something is created after the inner declaration
				switch r.Intn(3) {
				case 0:
					out = append(out, &LStmt{Key: []string{g.name()}})
				case 1:
					out = append(out, &LStmt{Src: []string{g.name()}, Dst: []string{g.name()}, Arrow: Pick(r, []string{"->", "--", "<-"})})
				default:
					out = append(out, g.explicit(depth))
				}
			}
		}
	}
	return out
}
