package gen

// layout2_grid.go — targeted workload of C22: grid diagrams with 0–30 cells of random sizes,
// grid-rows / grid-columns / grid-gap / vertical-gap / horizontal-gap in every combination and
// order (also interleaved with the cells), leaves / containers / nested grids as cells, cells
// with outside labels, icons, 3d / multiple and explicit dimensions.

import (
	"fmt"
	"strings"
)

type l2w struct {
	b   strings.Builder
	ind int
}

func (w *l2w) ln(f string, a ...any) {
	w.b.WriteString(strings.Repeat("  ", w.ind))
	fmt.Fprintf(&w.b, f, a...)
	w.b.WriteByte('\n')
}

func l2GridCount(r *R) int {
	switch r.Weighted(1, 1, 6, 6, 3, 1) {
	case 0:
		return 0
	case 1:
		return 1
	case 2:
		return r.Range(2, 6)
	case 3:
		return r.Range(5, 12)
	case 4:
		return r.Range(10, 20)
	}
	return r.Range(20, 30)
}

// l2GridSettings returns the setting lines in a random order; at least one of rows/columns.
func l2GridSettings(r *R, n int, feats *[]string) []string {
	var s []string
	rows, cols := 0, 0
	hi := n + 2
	if hi > 8 {
		hi = 8
	}
	switch r.Weighted(3, 3, 4) {
	case 0:
		rows = r.Range(1, hi)
	case 1:
		cols = r.Range(1, hi)
	default:
		rows, cols = r.Range(1, hi), r.Range(1, hi)
	}
	if rows > 0 {
		s = append(s, fmt.Sprintf("grid-rows: %d", rows))
	}
	if cols > 0 {
		s = append(s, fmt.Sprintf("grid-columns: %d", cols))
	}
	switch {
	case rows > 0 && cols > 0:
		*feats = append(*feats, "rows+columns")
	case rows > 0:
		*feats = append(*feats, "rows-only")
	default:
		*feats = append(*feats, "columns-only")
	}
	gap := func() int { return Pick(r, []int{0, 0, 1, 5, 10, 20, 40, 64, 100, 7, 13}) }
	if r.P(0.4) {
		s = append(s, fmt.Sprintf("grid-gap: %d", gap()))
		*feats = append(*feats, "grid-gap")
	}
	if r.P(0.3) {
		s = append(s, fmt.Sprintf("vertical-gap: %d", gap()))
		*feats = append(*feats, "vertical-gap")
	}
	if r.P(0.3) {
		s = append(s, fmt.Sprintf("horizontal-gap: %d", gap()))
		*feats = append(*feats, "horizontal-gap")
	}
	r.Shuffle(len(s), func(i, j int) { s[i], s[j] = s[j], s[i] })
	return s
}

func l2GridLeaf(w *l2w, r *R, id string, feats *[]string) {
	w.ln("%s: {", id)
	w.ind++
	shape := "rectangle"
	if r.P(0.35) {
		shape = Pick(r, []string{"square", "page", "parallelogram", "document", "cylinder", "queue", "package", "step", "callout", "stored_data", "person", "diamond", "oval", "circle", "hexagon", "cloud", "text", "code", "class", "sql_table", "image", "c4-person"})
		w.ln("shape: %s", shape)
		*feats = append(*feats, "cell_shape")
	}
	switch shape {
	case "image":
		w.ln("icon: https://icons.terrastruct.com/essentials/004-picture.svg")
	case "code":
		w.ln("label: |go\n%s  x := 1\n%s|", strings.Repeat("  ", w.ind), strings.Repeat("  ", w.ind))
	case "class":
		w.ln("+f: int")
	case "sql_table":
		w.ln("id: int {constraint: primary_key}")
	}
	if shape != "code" && r.P(0.6) {
		lab, _ := L2Label(r)
		if (shape == "text" || shape == "sql_table") && (lab == `""` || strings.Contains(lab, `\n`)) {
			lab = `"t"`
		}
		w.ln("label: %s", lab)
	}
	plain := shape != "text" && shape != "code" && shape != "class" && shape != "sql_table"
	if plain && r.P(0.25) {
		w.ln("label.near: %s", Pick(r, append(append([]string{}, L2OutsidePositions...), L2InsidePositions...)))
		*feats = append(*feats, "cell_label_near")
	}
	if plain && shape != "image" && r.P(0.15) {
		w.ln("icon: https://icons.terrastruct.com/essentials/005-programmer.svg")
		if r.P(0.5) {
			w.ln("icon.near: %s", Pick(r, append(append([]string{}, L2OutsidePositions...), L2InsidePositions...)))
		}
		*feats = append(*feats, "cell_icon")
	}
	if r.P(0.3) {
		d := func() int { return Pick(r, []int{30, 40, 50, 80, 120, 200, 333, 500}) }
		wd, ht := d(), d()
		if shape == "circle" || shape == "square" {
			ht = wd
		}
		if r.P(0.7) {
			w.ln("width: %d", wd)
		}
		if r.P(0.7) {
			w.ln("height: %d", ht)
		}
		*feats = append(*feats, "cell_dims")
	}
	if r.P(0.1) {
		switch shape {
		case "rectangle", "square", "hexagon":
			w.ln("style.3d: true")
			*feats = append(*feats, "cell_3d")
		case "page", "document", "cylinder", "queue", "package", "step", "callout", "stored_data", "person", "diamond", "oval", "circle", "cloud", "parallelogram":
			w.ln("style.multiple: true")
			*feats = append(*feats, "cell_multiple")
		}
	}
	if r.P(0.1) {
		w.ln("style.font-size: %d", Pick(r, []int{8, 24, 40}))
	}
	w.ind--
	w.ln("}")
}

func l2Grid(w *l2w, r *R, prefix string, depth int, feats *[]string, root bool) {
	n := l2GridCount(r)
	if depth > 0 && n > 8 {
		n = r.Range(1, 8)
	}
	*feats = append(*feats, fmt.Sprintf("cells_%s", map[bool]string{true: "0", false: map[bool]string{true: "1-9", false: "10-30"}[n < 10]}[n == 0]))
	settings := l2GridSettings(r, n, feats)
	// where the settings go: before, after, or interleaved with the cells
	pos := make([]int, len(settings))
	mode := r.Intn(3)
	for i := range pos {
		switch mode {
		case 0:
			pos[i] = 0
		case 1:
			pos[i] = n
		default:
			pos[i] = r.Range(0, n)
		}
	}
	if mode == 2 {
		*feats = append(*feats, "settings_interleaved")
	}
	emitSettings := func(at int) {
		for i, s := range settings {
			if pos[i] == at {
				w.ln("%s", s)
			}
		}
	}
	if !root && r.P(0.4) {
		lab, _ := L2Label(r)
		w.ln("label: %s", lab)
		if r.P(0.3) {
			w.ln("label.near: %s", Pick(r, append(append([]string{}, L2OutsidePositions...), L2InsidePositions...)))
		}
	}
	if !root && r.P(0.1) {
		w.ln("icon: https://icons.terrastruct.com/essentials/005-programmer.svg")
	}
	if !root && r.P(0.08) {
		w.ln("shape: %s", Pick(r, []string{"oval", "cloud", "hexagon", "package", "cylinder", "diamond"}))
		*feats = append(*feats, "grid_container_shape")
	}
	var ids []string
	for i := 0; i < n; i++ {
		emitSettings(i)
		id := fmt.Sprintf("%s%d", prefix, i)
		ids = append(ids, id)
		switch {
		case depth < 2 && r.P(0.08):
			// nested grid as a cell
			w.ln("%s: {", id)
			w.ind++
			l2Grid(w, r, id+"n", depth+1, feats, false)
			w.ind--
			w.ln("}")
			*feats = append(*feats, "cell_nested_grid")
		case r.P(0.12):
			// plain container as a cell
			w.ln("%s: {", id)
			w.ind++
			if r.P(0.5) {
				w.ln("label: %s", l2Quote(Pick(r, l2Words)))
			}
			if r.P(0.3) {
				w.ln("direction: %s", r.Str("right", "down", "left", "up"))
			}
			k := r.Range(1, 4)
			for j := 0; j < k; j++ {
				l2GridLeaf(w, r, fmt.Sprintf("k%d", j), feats)
			}
			if k > 1 && r.P(0.6) {
				w.ln("k0 -> k1")
			}
			w.ind--
			w.ln("}")
			*feats = append(*feats, "cell_container")
		default:
			l2GridLeaf(w, r, id, feats)
		}
	}
	emitSettings(n)
	// edges between cells of this grid
	if n > 1 && r.P(0.25) {
		for i, k := 0, r.Range(1, 3); i < k; i++ {
			a, b := Pick(r, ids), Pick(r, ids)
			if a != b {
				w.ln("%s -> %s", a, b)
				*feats = append(*feats, "cell_edge")
			}
		}
	}
}

// L2GridBoard renders a board with one or more grids (root grid, grid containers beside other
// shapes, grids nested in grids / containers).
func L2GridBoard(r *R) (string, []string) {
	w := &l2w{}
	var feats []string
	if r.P(0.2) {
		l2Grid(w, r, "c", 0, &feats, true)
		feats = append(feats, "root_grid")
		return w.b.String(), feats
	}
	if r.P(0.3) {
		w.ln("direction: %s", r.Str("up", "down", "left", "right"))
	}
	ng := r.Weighted(0, 6, 2)
	var tops []string
	for g := 0; g < ng; g++ {
		id := fmt.Sprintf("g%d", g)
		if r.P(0.15) {
			// grid inside a plain container
			w.ln("w%d: {", g)
			w.ind++
			w.ln("%s: {", id)
			w.ind++
			l2Grid(w, r, "c", 0, &feats, false)
			w.ind--
			w.ln("}")
			if r.P(0.5) {
				w.ln("other: x")
			}
			w.ind--
			w.ln("}")
			tops = append(tops, fmt.Sprintf("w%d", g))
			feats = append(feats, "grid_in_container")
			continue
		}
		w.ln("%s: {", id)
		w.ind++
		l2Grid(w, r, "c", 0, &feats, false)
		w.ind--
		w.ln("}")
		tops = append(tops, id)
	}
	for i, k := 0, r.Range(0, 3); i < k; i++ {
		id := fmt.Sprintf("o%d", i)
		l2GridLeaf(w, r, id, &feats)
		tops = append(tops, id)
	}
	for i, k := 0, r.Range(0, len(tops)); i < k; i++ {
		a, b := Pick(r, tops), Pick(r, tops)
		if a != b {
			w.ln("%s -> %s", a, b)
		}
	}
	return w.b.String(), feats
}
