package gen

import (
	"fmt"
	"path"
	"strings"
)

// ImportSet is a generated file set for C14: Files maps a slash path to the structured
// statements of that file; Main is the entry file. For cyclic sets Cycle lists the files of the
// intended cycle (evidence only).
type ImportSet struct {
	Main  string              `json:"main"`
	Files map[string][]*LStmt `json:"files"`
	Cycle []string            `json:"cycle,omitempty"`
}

type impGen struct {
	r     *R
	mount int
	// fixed, when set, is the import path to write verbatim (the same written path is reused in
	// files of different directories, where it denotes different files)
	fixed string
}

var (
	liNames = []string{"a", "b", "c", "d", "e"}
	liPaths = [][]string{
		{"f.d2", "g.d2", "h.d2", "k.d2"},
		{"f.d2", "d1/g.d2", "d1/h.d2", "d1/d2/k.d2"},
		{"lib/f.d2", "lib/g.d2", "x/h.d2", "k.d2"},
		{"d1/f.d2", "g.d2", "d1/d2/h.d2", "p/k.d2"},
	}
	liIcons = []string{"img.png", "./i/x.svg", "i/y.png", "https://ex.com/i.png", "/abs/z.png", "../up.png"}
)

// relImport spells the import path from file `from` to file `to` (without extension), in one of
// several equivalent ways.
func (g *impGen) relImport(from, to string, allowExt bool) (p string, quoted bool) {
	r := g.r
	if g.fixed != "" {
		return g.fixed, false
	}
	fd := strings.Split(path.Dir(from), "/")
	if path.Dir(from) == "." {
		fd = nil
	}
	tp := strings.Split(strings.TrimSuffix(to, ".d2"), "/")
	i := 0
	for i < len(fd) && i < len(tp)-1 && fd[i] == tp[i] {
		i++
	}
	pre := strings.Repeat("../", len(fd)-i)
	rest := strings.Join(tp[i:], "/")
	if pre == "" && r.P(0.3) {
		pre = "./"
	}
	if r.P(0.12) {
		// a redundant but equivalent spelling; needs quotes (dots inside the key)
		d, b := path.Dir(rest), path.Base(rest)
		if d == "." {
			rest = "zz/../" + b
		} else {
			rest = d + "/zz/../" + b
		}
		quoted = true
	}
	if allowExt && r.P(0.2) {
		rest += ".d2"
	}
	if r.P(0.1) {
		quoted = true
	}
	return pre + rest, quoted
}

func (g *impGen) name() string { return Pick(g.r, liNames) }

func (g *impGen) content(n, depth int) []*LStmt {
	r := g.r
	var out []*LStmt
	for i := 0; i < n; i++ {
		switch r.Weighted(30, 25, 25, 8, 12) {
		case 0:
			s := &LStmt{Key: []string{g.name()}}
			if r.P(0.3) {
				s.Key = append(s.Key, g.name())
			}
			if r.P(0.5) {
				s.Val = LLit(Pick(r, lgLabels))
			}
			out = append(out, s)
		case 1:
			a := Pick(r, lgObjAttrs)
			out = append(out, &LStmt{Key: append([]string{g.name()}, a.key...), Val: LLit(a.val(r))})
		case 2:
			s := &LStmt{Src: []string{g.name()}, Dst: []string{g.name()}, Arrow: Pick(r, []string{"->", "->", "--", "<-"})}
			if r.P(0.3) {
				s.Src = append(s.Src, g.name())
			}
			if r.P(0.4) {
				s.Val = LLit(Pick(r, lgLabels))
			}
			if r.P(0.2) {
				s.Body = []*LStmt{{Key: []string{"style", "stroke"}, Val: LLit(Pick(r, lgColors))}}
			}
			out = append(out, s)
		case 3:
			out = append(out, &LStmt{Key: []string{g.name(), "icon"}, Val: LLit(Pick(r, liIcons))})
		default:
			s := &LStmt{Key: []string{g.name()}, HasBody: true}
			if r.P(0.3) {
				s.Val = LLit(Pick(r, lgLabels))
			}
			if depth < 2 {
				s.Body = g.content(r.Range(1, 3), depth+1)
			}
			out = append(out, s)
		}
	}
	return out
}

type liFile struct {
	path      string
	rootAttrs bool
	keyObj    string
	triple    bool
}

// importStmt builds one import of file t from file `from` in the given form.
// forms: 0 top-level spread, 1 value import, 2 spread inside an otherwise empty map, 3 import key.
func (g *impGen) importStmt(from string, t liFile, form int) *LStmt {
	r := g.r
	g.mount++
	m := fmt.Sprintf("m%d", g.mount)
	switch form {
	case 0:
		p, q := g.relImport(from, t.path, true)
		return &LStmt{Imp: &LImp{Path: p, Quoted: q, Spread: true}, Tag: "import-top"}
	case 1:
		p, q := g.relImport(from, t.path, true)
		return &LStmt{Key: []string{m}, Imp: &LImp{Path: p, Quoted: q}, Tag: "import-value"}
	case 2:
		p, q := g.relImport(from, t.path, true)
		s := &LStmt{Key: []string{m}, HasBody: true, Body: []*LStmt{{Imp: &LImp{Path: p, Quoted: q, Spread: true}, Tag: "import-in-map"}}}
		if r.P(0.3) {
			s.Val = LLit(Pick(r, lgLabels))
		}
		return s
	}
	p, q := g.relImport(from, t.path, false)
	return &LStmt{Key: []string{m}, Imp: &LImp{Path: p, Quoted: q, Key: []string{t.keyObj}}, Tag: "import-key"}
}

// ImportProgram generates an acyclic file set (1–4 imported files) with every import form.
func ImportProgram(r *R, big bool) *ImportSet {
	g := &impGen{r: r}
	paths := Pick(r, liPaths)
	n := r.Range(1, 4)
	mainPath := "main.d2"
	if r.P(0.2) {
		mainPath = "p/main.d2"
	}
	files := []liFile{{path: mainPath}}
	for i := 0; i < n; i++ {
		files = append(files, liFile{path: paths[i], rootAttrs: r.P(0.2), keyObj: fmt.Sprintf("k%d", i+1), triple: r.P(0.12)})
	}
	set := &ImportSet{Main: mainPath, Files: map[string][]*LStmt{}}
	for i := len(files) - 1; i >= 0; i-- {
		f := files[i]
		sz := r.Range(2, 6)
		if big {
			sz = r.Range(3, 10)
		}
		body := g.content(sz, 0)
		if i > 0 {
			// the object that import keys refer to: defined by exactly one statement
			ko := &LStmt{Key: []string{f.keyObj}, Val: LLit(Pick(r, lgLabels)), HasBody: true, Body: g.content(r.Range(0, 3), 1)}
			if r.P(0.5) {
				ko.Body = append(ko.Body, &LStmt{Key: []string{"shape"}, Val: LLit(Pick(r, lgShapes))})
			}
			at := r.Intn(len(body) + 1)
			body = append(body[:at:at], append([]*LStmt{ko}, body[at:]...)...)
		}
		if f.rootAttrs {
			a := Pick(r, lgObjAttrs)
			body = append(body, &LStmt{Key: append([]string{}, a.key...), Val: LLit(a.val(r))})
		}
		if f.triple {
			a := Pick(r, lgObjAttrs[:4])
			at := r.Intn(len(body) + 1)
			body = append(body[:at:at], append([]*LStmt{{Key: append([]string{"***"}, a.key...), Val: LLit(a.val(r)), Tag: "glob"}}, body[at:]...)...)
		}
		// imports of later files
		var targets []liFile
		for j := i + 1; j < len(files); j++ {
			targets = append(targets, files[j])
		}
		nImp := 0
		if len(targets) > 0 {
			nImp = r.Range(1, 3)
			if i > 0 {
				nImp = r.Range(0, 2)
			}
		}
		usedTop := false
		for k := 0; k < nImp; k++ {
			t := Pick(r, targets)
			form := r.Intn(4)
			if form == 0 && (usedTop || t.rootAttrs || f.rootAttrs && false) {
				form = 1 + r.Intn(3)
			}
			st := g.importStmt(f.path, t, form)
			if form == 0 {
				usedTop = true
				body = append([]*LStmt{st}, body...)
				continue
			}
			at := r.Intn(len(body) + 1)
			if usedTop && at == 0 {
				at = 1
			}
			body = append(body[:at:at], append([]*LStmt{st}, body[at:]...)...)
			if r.P(0.3) && form != 3 {
				// touch the imported content afterwards
				a := Pick(r, lgObjAttrs)
				body = append(body, &LStmt{Key: append([]string{st.Key[0], g.name()}, a.key...), Val: LLit(a.val(r))})
			}
		}
		if i == 0 && r.P(0.15) {
			body = append(body, &LStmt{Key: []string{"layers"}, HasBody: true, Body: []*LStmt{{Key: []string{"l1"}, HasBody: true, Body: g.content(r.Range(1, 3), 1)}}})
		}
		set.Files[f.path] = body
	}
	return set
}

// ImportCycle generates a file set whose import chain leads back to a file already being
// imported: cycle length n (1–4), every import form, equivalent path spellings.
func ImportCycle(r *R, n int) *ImportSet {
	g := &impGen{r: r}
	paths := Pick(r, liPaths)
	mainPath := "main.d2"
	if r.P(0.2) {
		mainPath = "p/main.d2"
	}
	set := &ImportSet{Main: mainPath, Files: map[string][]*LStmt{}}
	// the cycle's files; optionally main itself is part of the cycle
	var cyc []liFile
	withMain := r.P(0.25)
	if withMain {
		cyc = append(cyc, liFile{path: mainPath, keyObj: "k0"})
	}
	for i := 0; len(cyc) < n; i++ {
		cyc = append(cyc, liFile{path: paths[i], keyObj: fmt.Sprintf("k%d", i+1)})
	}
	mk := func(f liFile) []*LStmt {
		body := g.content(r.Range(1, 4), 0)
		body = append(body, &LStmt{Key: []string{f.keyObj}, Val: LLit("x"), HasBody: true, Body: g.content(r.Range(0, 2), 1)})
		return body
	}
	place := func(body []*LStmt, st *LStmt, form int) []*LStmt {
		if form == 0 {
			return append([]*LStmt{st}, body...)
		}
		at := r.Intn(len(body) + 1)
		return append(body[:at:at], append([]*LStmt{st}, body[at:]...)...)
	}
	for i, f := range cyc {
		next := cyc[(i+1)%len(cyc)]
		form := r.Intn(4)
		body := place(mk(f), g.importStmt(f.path, next, form), form)
		set.Files[f.path] = body
		set.Cycle = append(set.Cycle, f.path)
	}
	if !withMain {
		// main reaches the cycle, possibly through an innocent file
		entry := cyc[r.Intn(len(cyc))]
		form := r.Intn(4)
		if r.P(0.3) && n < 4 {
			mid := liFile{path: paths[3], keyObj: "k9"}
			f2 := r.Intn(4)
			set.Files[mid.path] = place(mk(mid), g.importStmt(mid.path, entry, f2), f2)
			entry = mid
		}
		set.Files[mainPath] = place(mk(liFile{path: mainPath, keyObj: "k0"}), g.importStmt(mainPath, entry, form), form)
	}
	return set
}

// collisionFile builds the body of one file of a collision set: random content, a marker
// object, and the single-statement object that import keys refer to.
func (g *impGen) collisionFile(marker, keyObj string) []*LStmt {
	r := g.r
	body := g.content(r.Range(1, 4), 0)
	body = append(body, &LStmt{Key: []string{marker}, Val: LLit(marker)})
	ko := &LStmt{Key: []string{keyObj}, Val: LLit(marker + " key"), HasBody: true, Body: g.content(r.Range(0, 2), 1)}
	at := r.Intn(len(body) + 1)
	return append(body[:at:at], append([]*LStmt{ko}, body[at:]...)...)
}

func placeImport(r *R, body []*LStmt, st *LStmt, form int, afterTop bool) []*LStmt {
	if form == 0 {
		return append([]*LStmt{st}, body...)
	}
	lo := 0
	if afterTop {
		lo = 1
	}
	at := lo
	if len(body) > lo {
		at = r.Range(lo, len(body))
	}
	return append(body[:at:at], append([]*LStmt{st}, body[at:]...)...)
}

// ImportCollision generates a file set in which the SAME written import path denotes different
// files, because it is written in files of different directories: main imports `@x` (x.d2) and
// `@d/q`; d/q.d2 imports `@x` (d/x.d2, different content); optionally a third level
// (d/e/r.d2 imports `@x` → d/e/x.d2). Every import form is used. With cyclic, the colliding
// file closes a cycle (d/q → d/x → d/q) that must be reported.
func ImportCollision(r *R, cyclic bool) *ImportSet {
	g := &impGen{r: r}
	d := Pick(r, []string{"sub", "lib", "d1"})
	x := Pick(r, []string{"x", "f", "g", "common"})
	written := x
	if r.P(0.25) {
		written = "./" + x
	}
	set := &ImportSet{Main: "main.d2", Files: map[string][]*LStmt{}}
	outer := liFile{path: x + ".d2", keyObj: "k1"}
	inner := liFile{path: d + "/" + x + ".d2", keyObj: "k1"}
	q := liFile{path: d + "/q.d2", keyObj: "k2"}
	set.Files[outer.path] = g.collisionFile("outer", "k1")
	innerBody := g.collisionFile("inner", "k1")
	qBody := g.collisionFile("qq", "k2")

	three := !cyclic && r.P(0.3)
	if three {
		e := "e"
		deep := liFile{path: d + "/" + e + "/" + x + ".d2", keyObj: "k1"}
		rr := liFile{path: d + "/" + e + "/r.d2", keyObj: "k3"}
		set.Files[deep.path] = g.collisionFile("deep", "k1")
		rBody := g.collisionFile("rr", "k3")
		g.fixed = written
		f := r.Intn(4)
		rBody = placeImport(r, rBody, g.importStmt(rr.path, deep, f), f, false)
		g.fixed = ""
		set.Files[rr.path] = rBody
		f2 := 1 + r.Intn(3)
		qBody = placeImport(r, qBody, g.importStmt(q.path, rr, f2), f2, false)
	}
	// d/q imports `@x` → d/x.d2
	g.fixed = written
	fq := r.Intn(4)
	if three && fq == 0 {
		fq = 1
	}
	qBody = placeImport(r, qBody, g.importStmt(q.path, inner, fq), fq, false)
	g.fixed = ""
	if cyclic {
		// d/x imports q → cycle d/q → d/x → d/q
		fx := r.Intn(4)
		innerBody = placeImport(r, innerBody, g.importStmt(inner.path, q, fx), fx, false)
		set.Cycle = []string{q.path, inner.path}
	}
	set.Files[inner.path] = innerBody
	set.Files[q.path] = qBody

	// main imports `@x` (→ x.d2) and `@d/q`, in either order
	mainBody := g.collisionFile("mm", "k0")
	g.fixed = written
	f1 := r.Intn(4)
	s1 := g.importStmt("main.d2", outer, f1)
	g.fixed = ""
	f3 := 1 + r.Intn(3)
	s3 := g.importStmt("main.d2", q, f3)
	if r.P(0.75) {
		// outer first in compile order
		mainBody = placeImport(r, mainBody, s3, f3, false)
		if f1 == 0 {
			mainBody = placeImport(r, mainBody, s1, 0, false)
		} else {
			mainBody = append([]*LStmt{s1}, mainBody...)
		}
	} else {
		mainBody = append(mainBody, s3)
		if f1 == 0 {
			f1 = 1
			g.fixed = written
			s1 = g.importStmt("main.d2", outer, 1)
			g.fixed = ""
		}
		mainBody = append(mainBody, s1)
	}
	set.Files["main.d2"] = mainBody
	return set
}

// ImportVarsBlockString: a file whose markdown label holds a substitution that only the
// importer can resolve, imported at the top of two files with different vars.
func ImportVarsBlockString(r *R) *ImportSet {
	g := &impGen{r: r}
	set := &ImportSet{Main: "main.d2", Files: map[string][]*LStmt{}}
	t := g.content(r.Range(0, 2), 0)
	t = append(t, &LStmt{Raw: "note: |md hello ${v} world |"})
	set.Files["t.d2"] = t
	for i, val := range []string{"alpha", "beta"} {
		name := fmt.Sprintf("f%d.d2", i+1)
		body := []*LStmt{{Imp: &LImp{Path: "t", Spread: true}, Tag: "import-top"}}
		body = append(body, &LStmt{Key: []string{"vars"}, HasBody: true, Tag: "vars", Body: []*LStmt{{Key: []string{"v"}, Val: LLit(val)}}})
		body = append(body, g.content(r.Range(0, 2), 0)...)
		set.Files[name] = body
	}
	set.Files["main.d2"] = append(g.content(r.Range(0, 2), 0),
		&LStmt{Key: []string{"m1"}, Imp: &LImp{Path: "f1"}, Tag: "import-value"},
		&LStmt{Key: []string{"m2"}, Imp: &LImp{Path: "f2"}, Tag: "import-value"})
	return set
}
