package gen

// Mutate applies 1-3 byte/token level mutations to s.
func Mutate(r *R, s string) string {
	b := []byte(s)
	for k := r.Range(1, 3); k > 0; k-- {
		if len(b) == 0 {
			b = append(b, Pick(r, mutToks)...)
			continue
		}
		i := r.Intn(len(b))
		switch r.Intn(7) {
		case 0: // delete a span
			j := i + r.Range(1, 8)
			if j > len(b) {
				j = len(b)
			}
			b = append(b[:i:i], b[j:]...)
		case 1: // duplicate a span
			j := i + r.Range(1, 16)
			if j > len(b) {
				j = len(b)
			}
			seg := append([]byte{}, b[i:j]...)
			b = append(b[:j:j], append(seg, b[j:]...)...)
		case 2: // insert a token
			t := Pick(r, mutToks)
			b = append(b[:i:i], append([]byte(t), b[i:]...)...)
		case 3: // truncate
			b = b[:i]
		case 4: // swap two spans
			j := r.Intn(len(b))
			b[i], b[j] = b[j], b[i]
		case 5: // replace byte
			b[i] = Pick(r, mutToks)[0]
		case 6: // change letter case of a span
			j := i + r.Range(1, 10)
			if j > len(b) {
				j = len(b)
			}
			for k := i; k < j; k++ {
				if b[k] >= 'a' && b[k] <= 'z' {
					b[k] -= 32
				} else if b[k] >= 'A' && b[k] <= 'Z' {
					b[k] += 32
				}
			}
		}
	}
	return string(b)
}

var mutToks = []string{"{", "}", "[", "]", "(", ")", ":", ";", ".", "->", "<-", "--", "|", "'", "\"", "\\", "\n", " ", "#", "*", "**", "&", "!&", "@", "...", "${", "$", "_", "null", "\x00", "\xff", "é", "😀", "|md", "\"\"\"", ": null", ".style.fill: red", "[0]", "layers", "vars: {", "d2-config"}
