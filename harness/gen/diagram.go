package gen

// Diagram: the shared `diagram` profile of DESIGN.md §2.2 — ALWAYS-COMPILABLE D2 text
// biased to layout features.
//
//	text := gen.Diagram(r, gen.DiagramOpts{})                  // default profile
//	text := gen.Diagram(r, gen.DiagramOpts{Hostile: true})     // + hostile names (backtick, ${, quotes, dots, …)
//	text := gen.Diagram(r, gen.DiagramOpts{Engine: "elk"})     // + features only ELK declares (container width/height, descendant edges)
//	o := gen.DiagramOpts{Sequence: -1, Grids: .5}              // 0 = default probability, negative = never
//
// What is generated (every probability is per opportunity):
//   - a tree of objects, containers ≤ MaxDepth (default 4) deep, MinObjects..MaxObjects objects
//     per board (defaults 3..16; the count is a target, special diagrams may add a few);
//   - every shape incl. class / sql_table (with fields, columns, constraints) / code / text /
//     image; markdown, code and latex block-string labels;
//   - root and per-container `direction`; label.near / icon.near at all 33 positions; icons (URL
//     strings only — nothing in compile/layout/render fetches them); tooltips, links;
//   - width/height (equal for circle/square; on containers only for Engine "elk");
//   - style.3d / multiple / shadow / double-border only on the shapes the compiler allows;
//     fill, stroke, stroke-width, border-radius, font-size, bold, italic, opacity, fill-pattern…;
//   - grid diagrams (grid-rows/grid-columns/gaps, cells that are containers, nested grids),
//     sequence diagrams (actors, messages, self messages, spans, notes, groups), as containers and
//     (rarely) as the root;
//   - 0–3 constant-near root objects (leaves, containers, grids);
//   - connections: chains of the four arrow kinds, labels, styles, source/target arrowheads with
//     shape/label/filled, self loops, parallel edges, container↔container, edges crossing
//     grid / near / container boundaries, sql_table column edges, edges written at the root or
//     inside the nearest common container (optionally with `_` parent references);
//   - (rarely) layers / scenarios / steps with their own content.
//
// What is NEVER generated, because the compiler rejects it: edges from a grid / grid cell /
// sequence diagram / constant near into itself, near on non-root objects, children of image
// shapes or of class/sql_table fields, top/left in grids, blank text labels, newlines in
// sql_table labels, unequal width/height on circle/square, 3d/double-border on other shapes,
// sibling names that are equal ignoring case (d2ir keys are case-insensitive; they would merge).
//
// What is generated only on request: features that no bundled engine's plugin declares
// (`top`/`left`, `near: <object>`; Unsupported=true) and features only ELK declares (Engine
// "elk" or Unsupported=true). d2lib.Compile itself does not check plugin features (the CLI
// does, after layout), so such programs still compile and are laid out.
//
// The output is a pure function of (r, o). The generator does not import d2.

import (
	"fmt"
	"strings"
)

// DiagramOpts configures Diagram. Zero value = default profile. Probabilities: 0 selects the
// default below, a negative value switches the feature off.
type DiagramOpts struct {
	Hostile     bool   // object names and some labels from Name(r, true, …)
	Engine      string // "", "dagre", "elk": "" and "dagre" emit only what both bundled engines declare supported
	Unsupported bool   // also emit top/left, near:<object>, and (any engine) container dims / descendant edges / container self loops

	MinObjects, MaxObjects int // per board; 0 → 3 / 16
	MaxDepth               int // container nesting; 0 → 4
	NamePool               int // >0: names are drawn from a pool of that many names (incl. case variants), so the same id recurs in different containers

	Containers  float64 // an object becomes a container (default .3)
	Shapes      float64 // a leaf gets an explicit simple shape (.5)
	Special     float64 // a leaf is class/sql_table/code/text/markdown/latex/image (.15)
	Latex       float64 // share of Special that is latex (MathJax in goja: slow) (.05)
	Labels      float64 // explicit label (.5)
	LabelPos    float64 // label.near (.3)
	Icons       float64 // icon (.15)
	IconPos     float64 // icon.near, given an icon (.5)
	Dims        float64 // width and/or height (.15)
	Mods        float64 // 3d / multiple / shadow / double-border (.15)
	Styles      float64 // other style keys (.15)
	Direction   float64 // root direction (and half of it per container) (.4)
	Grids       float64 // a container is a grid (.2)
	Sequence    float64 // a container is a sequence diagram (.1)
	RootSpecial float64 // the root itself is a grid or sequence diagram (.05)
	Near        float64 // board has constant-near objects (.2)
	Tooltips    float64 // (.05)
	Links       float64 // (.05)
	Edges       float64 // edges per object, scaled by a random factor in [0,1.5] (.9)
	EdgeLabels  float64 // (.4)
	Arrowheads  float64 // source-/target-arrowhead maps (.2)
	EdgeStyles  float64 // (.15)
	SelfLoops   float64 // share of edges that are self loops (.05)
	CrossEdges  float64 // an edge may leave its special diagram (grid/near group) (.5); negative: endpoints always in the same one
	SeqCross    float64 // an edge connects the inside of a sequence diagram with the outside (.02)
	ColumnEdges float64 // an edge between sql_table columns when two tables exist (.3)
	RelScope    float64 // an edge is written inside the nearest common container instead of the root (.4)
	Boards      float64 // layers/scenarios/steps (.04)
}

// DiagramDefault holds the default probabilities (documentation; Diagram applies them to
// zero fields).
var DiagramDefault = DiagramOpts{
	MinObjects: 3, MaxObjects: 16, MaxDepth: 4,
	Containers: .3, Shapes: .5, Special: .15, Latex: .05, Labels: .5, LabelPos: .3, Icons: .15, IconPos: .5,
	Dims: .15, Mods: .15, Styles: .15, Direction: .4, Grids: .2, Sequence: .1, RootSpecial: .05, Near: .2,
	Tooltips: .05, Links: .05, Edges: .9, EdgeLabels: .4, Arrowheads: .2, EdgeStyles: .15, SelfLoops: .05,
	CrossEdges: .5, SeqCross: .02, ColumnEdges: .3, RelScope: .4, Boards: .04,
}

func (o DiagramOpts) withDefaults() DiagramOpts {
	d := DiagramDefault
	pi := func(v *int, def int) {
		if *v == 0 {
			*v = def
		}
	}
	pf := func(v *float64, def float64) {
		if *v == 0 {
			*v = def
		} else if *v < 0 {
			*v = 0
		}
	}
	pi(&o.MinObjects, d.MinObjects)
	pi(&o.MaxObjects, d.MaxObjects)
	if o.MaxObjects < o.MinObjects {
		o.MaxObjects = o.MinObjects
	}
	pi(&o.MaxDepth, d.MaxDepth)
	pf(&o.Containers, d.Containers)
	pf(&o.Shapes, d.Shapes)
	pf(&o.Special, d.Special)
	pf(&o.Latex, d.Latex)
	pf(&o.Labels, d.Labels)
	pf(&o.LabelPos, d.LabelPos)
	pf(&o.Icons, d.Icons)
	pf(&o.IconPos, d.IconPos)
	pf(&o.Dims, d.Dims)
	pf(&o.Mods, d.Mods)
	pf(&o.Styles, d.Styles)
	pf(&o.Direction, d.Direction)
	pf(&o.Grids, d.Grids)
	pf(&o.Sequence, d.Sequence)
	pf(&o.RootSpecial, d.RootSpecial)
	pf(&o.Near, d.Near)
	pf(&o.Tooltips, d.Tooltips)
	pf(&o.Links, d.Links)
	pf(&o.Edges, d.Edges)
	pf(&o.EdgeLabels, d.EdgeLabels)
	pf(&o.Arrowheads, d.Arrowheads)
	pf(&o.EdgeStyles, d.EdgeStyles)
	pf(&o.SelfLoops, d.SelfLoops)
	pf(&o.CrossEdges, d.CrossEdges)
	pf(&o.SeqCross, d.SeqCross)
	pf(&o.ColumnEdges, d.ColumnEdges)
	pf(&o.RelScope, d.RelScope)
	pf(&o.Boards, d.Boards)
	return o
}

// LabelPositions are the values accepted by label.near / icon.near.
var LabelPositions = []string{
	"top-left", "top-center", "top-right", "center-left", "center-center", "center-right",
	"bottom-left", "bottom-center", "bottom-right",
	"outside-top-left", "outside-top-center", "outside-top-right",
	"outside-left-top", "outside-left-center", "outside-left-bottom",
	"outside-right-top", "outside-right-center", "outside-right-bottom",
	"outside-bottom-left", "outside-bottom-center", "outside-bottom-right",
	"border-top-left", "border-top-center", "border-top-right",
	"border-left-top", "border-left-center", "border-left-bottom",
	"border-right-top", "border-right-center", "border-right-bottom",
	"border-bottom-left", "border-bottom-center", "border-bottom-right",
}

// NearConstants are the constant values of `near`.
var NearConstants = []string{"top-left", "top-center", "top-right", "center-left", "center-right", "bottom-left", "bottom-center", "bottom-right"}

var Directions = []string{"up", "down", "left", "right"}

// IconURLs are syntactically valid icon URLs; nothing in compile/layout/render fetches them.
var IconURLs = []string{
	"https://icons.terrastruct.com/essentials/004-picture.svg",
	"https://icons.terrastruct.com/aws%2FCompute%2FAmazon-EC2.svg",
	"https://icons.terrastruct.com/essentials%2F117-database.svg",
	"https://example.com/icon.png",
}

// ActorShapes are the shapes used for sequence diagram actors.
// DiagramColors are values accepted by fill / stroke / font-color.
var DiagramColors = []string{"red", "blue", "#fff", "#00ff00", "#1E90FF", "honeydew", "transparent", "linear-gradient(#fff, #000)", "radial-gradient(red, blue)", "black"}

// DiagramArrowheads are the arrowhead shapes the compiler accepts.
var DiagramArrowheads = []string{"none", "arrow", "triangle", "diamond", "circle", "box", "cross", "cf-one", "cf-many", "cf-one-required", "cf-many-required"}

var ActorShapes = []string{"person", "rectangle", "oval", "cylinder", "queue", "diamond", "hexagon", "cloud", "c4-person", "page", "step", "callout", "stored_data", "package", "document", "parallelogram", "square", "circle"}

const (
	dkPlain = iota // leaf or plain container
	dkGrid
	dkSeq
	dkClass
	dkSQL
	dkImage
	dkText // code / text / markdown / latex: leaves whose label is given in the header
)

type dnode struct {
	name   string
	key    string // rendered key segment (fixed once, so every reference is textually identical)
	parent *dnode
	kids   []*dnode
	kind   int
	depth  int
	shape  string   // explicit shape ("" = none written)
	header string   // primary value written after "key:" (label / block string), may be ""
	attrs  []string // attribute lines
	cols   []string // sql_table column keys (rendered)
	near   bool     // constant near (root level)
	inSeq  bool     // strictly inside a sequence diagram
	edges  []string // edge statements written in this node's scope
	body   []string // extra raw statements (sequence diagram content, boards)
}

func (n *dnode) isContainer() bool { return len(n.kids) > 0 }

func (n *dnode) isAncestorOf(m *dnode) bool {
	for p := m.parent; p != nil; p = p.parent {
		if p == n {
			return true
		}
	}
	return false
}

// sroot is the nearest enclosing special diagram (grid, constant near) or the root.
func (n *dnode) sroot() *dnode {
	for p := n; p != nil; p = p.parent {
		if p.parent == nil || p.kind == dkGrid || p.near || p.kind == dkSeq {
			return p
		}
	}
	return n
}

type dg struct {
	r       *R
	o       DiagramOpts
	pool    []string
	counter int
	suffix  string // appended to root-level names of nested boards (scenarios/steps inherit: no merging with the base)
}

// Diagram renders one compilable D2 program.
func Diagram(r *R, o DiagramOpts) string {
	d := &dg{r: r, o: o.withDefaults()}
	var sb strings.Builder
	d.board(&sb, 0, d.r.Range(d.o.MinObjects, d.o.MaxObjects), 0, false)
	return sb.String()
}

func (d *dg) descOK() bool { return d.o.Engine == "elk" || d.o.Unsupported }

// ---------------------------------------------------------------- names and texts

func (d *dg) newName(parent *dnode) (name, key string) {
	for try := 0; ; try++ {
		var s string
		if d.o.NamePool > 0 {
			if d.pool == nil {
				for i := 0; i < d.o.NamePool; i++ {
					n := plainName(d.r)
					if d.o.Hostile && d.r.P(0.4) {
						n = Name(d.r, true, 8)
					}
					d.pool = append(d.pool, n)
					if d.r.P(0.3) {
						d.pool = append(d.pool, strings.ToUpper(n))
					}
				}
			}
			s = Pick(d.r, d.pool)
		} else if d.o.Hostile && d.r.P(0.6) {
			s = Name(d.r, true, 12)
		} else {
			s = plainName(d.r)
			if d.r.P(0.15) {
				s += " " + plainName(d.r) // unquoted key with an inner space
			}
			if d.r.P(0.1) {
				s = d.r.RandCase(s)
			}
		}
		if try > 5 {
			d.counter++
			s = fmt.Sprintf("%s%d", s, d.counter)
		}
		if parent != nil && parent.parent == nil {
			s += d.suffix
		}
		norm := strings.ToLower(strings.TrimSpace(s))
		if norm == "" || isKeywordFold(norm) {
			// a quoted key that equals a reserved keyword ignoring case is not reliably an
			// ordinary object: d2ir/d2compiler look several keywords up case-insensitively and
			// without regard to quoting (e.g. `"Shape": {…}` is taken for a composite shape)
			continue
		}
		clash := false
		if parent != nil {
			for _, k := range parent.kids {
				if strings.ToLower(strings.TrimSpace(k.name)) == norm {
					clash = true
					break
				}
			}
		}
		if clash {
			continue
		}
		return s, d.renderKey(s)
	}
}

func isKeywordFold(s string) bool {
	for _, k := range Keywords {
		if strings.EqualFold(s, k) {
			return true
		}
	}
	return false
}

func isPlainSpaced(s string) bool {
	// words of [A-Za-z][A-Za-z0-9]* separated by single spaces, none of them a keyword
	if s == "" {
		return false
	}
	for _, w := range strings.Split(s, " ") {
		if !IsPlain(w) {
			return false
		}
	}
	return true
}

func (d *dg) renderKey(s string) string {
	if isPlainSpaced(s) && !d.r.P(0.05) {
		return s
	}
	if !strings.ContainsAny(s, "\n") && d.r.P(0.3) {
		return SingleQuote(s)
	}
	return Quote(s)
}

var dgWords = []string{"api", "db", "cache", "user", "Load Balancer", "queue", "auth service", "S3", "worker", "gateway",
	"a", "x", "Hello, world", "the quick brown fox", "étoile", "数据库", "サーバー", "Ω", "n+1", "50%", "a_b", "v1.2"}

func (d *dg) text() string {
	r := d.r
	if d.o.Hostile && r.P(0.3) {
		return Name(r, true, 20)
	}
	switch r.Weighted(10, 3, 2, 2, 1) {
	case 0:
		return Pick(r, dgWords)
	case 1:
		n := r.Range(2, 4)
		parts := make([]string, n)
		for i := range parts {
			parts[i] = Pick(r, dgWords)
		}
		return strings.Join(parts, "\n")
	case 2:
		n := r.Range(6, 25)
		parts := make([]string, n)
		for i := range parts {
			parts[i] = Pick(r, dgWords)
		}
		return strings.Join(parts, " ")
	case 3:
		return UnicodeText(r, 12)
	}
	return ""
}

func (d *dg) nonBlankText() string {
	for i := 0; i < 8; i++ {
		if s := d.text(); strings.TrimSpace(s) != "" {
			return s
		}
	}
	return "text"
}

func (d *dg) oneLineText() string {
	s := strings.NewReplacer("\n", " ", "\r", " ").Replace(d.text())
	return s
}

// ---------------------------------------------------------------- objects

func (d *dg) newNode(parent *dnode) *dnode {
	n := &dnode{parent: parent, depth: parent.depth + 1}
	n.name, n.key = d.newName(parent)
	parent.kids = append(parent.kids, n)
	return n
}

// common attributes valid on any object.
func (d *dg) commonAttrs(n *dnode, leaf bool) {
	r, o := d.r, d.o
	if n.header == "" && n.kind != dkText && r.P(o.Labels) {
		t := d.text()
		if n.kind == dkSQL {
			t = strings.NewReplacer("\n", " ", "\r", " ").Replace(t)
		}
		if r.P(0.5) {
			n.header = Quote(t)
		} else {
			n.attrs = append(n.attrs, "label: "+Quote(t))
		}
	}
	if n.kind == dkSQL && strings.ContainsAny(n.name, "\n\r") && n.header == "" {
		// the default label is the key: sql_table labels must not contain newlines
		has := false
		for _, a := range n.attrs {
			if strings.HasPrefix(a, "label:") {
				has = true
			}
		}
		if !has {
			n.header = Quote("table")
		}
	}
	if r.P(o.LabelPos) {
		n.attrs = append(n.attrs, "label.near: "+Pick(r, LabelPositions))
	}
	if n.kind != dkImage && r.P(o.Icons) {
		n.attrs = append(n.attrs, "icon: "+Pick(r, IconURLs))
		if r.P(o.IconPos) {
			n.attrs = append(n.attrs, "icon.near: "+Pick(r, LabelPositions))
		}
	}
	if n.kind == dkImage && r.P(o.IconPos*0.3) {
		n.attrs = append(n.attrs, "icon.near: "+Pick(r, LabelPositions))
	}
	if r.P(o.Tooltips) {
		// tooltips are compiled as markdown: keep them well-formed
		n.attrs = append(n.attrs, "tooltip: "+Quote(Pick(r, dgWords)+" tip"))
	}
	if r.P(o.Links) {
		n.attrs = append(n.attrs, "link: https://example.com/"+plainName(r))
	}
	if r.P(o.Styles) {
		for i, k := 0, r.Range(1, 3); i < k; i++ {
			n.attrs = append(n.attrs, d.styleLine())
		}
	}
	if r.P(o.Mods) {
		sh := n.shape
		switch r.Intn(4) {
		case 0:
			if sh == "" || sh == "rectangle" || sh == "square" || sh == "hexagon" {
				if n.kind == dkPlain {
					n.attrs = append(n.attrs, "style.3d: true")
				}
			}
		case 1:
			n.attrs = append(n.attrs, "style.multiple: true")
		case 2:
			n.attrs = append(n.attrs, "style.shadow: true")
		case 3:
			if (sh == "" || sh == "rectangle" || sh == "square" || sh == "circle" || sh == "oval") && n.kind == dkPlain {
				n.attrs = append(n.attrs, "style.double-border: true")
			}
		}
	}
	_ = leaf
}

func (d *dg) styleLine() string {
	r := d.r
	switch r.Intn(12) {
	case 0:
		return "style.fill: " + Quote(Pick(r, DiagramColors))
	case 1:
		return "style.stroke: " + Quote(Pick(r, DiagramColors))
	case 2:
		return fmt.Sprintf("style.stroke-width: %d", r.Range(0, 15))
	case 3:
		return fmt.Sprintf("style.border-radius: %d", r.Range(0, 40))
	case 4:
		return fmt.Sprintf("style.font-size: %d", r.Range(8, 100))
	case 5:
		return "style.bold: " + r.Str("true", "false")
	case 6:
		return "style.italic: true"
	case 7:
		return fmt.Sprintf("style.opacity: 0.%d", r.Range(0, 9))
	case 8:
		return "style.fill-pattern: " + r.Str("dots", "lines", "grain", "paper", "none")
	case 9:
		return fmt.Sprintf("style.stroke-dash: %d", r.Range(0, 10))
	case 10:
		return "style.text-transform: " + r.Str("uppercase", "lowercase", "capitalize", "none")
	}
	return "style.font: mono"
}

func (d *dg) dims(n *dnode) {
	r := d.r
	if !r.P(d.o.Dims) {
		return
	}
	w, h := r.Range(1, 60)*10, r.Range(1, 60)*10
	if r.P(0.1) {
		w = r.Range(1, 20)
	}
	if n.shape == "circle" || n.shape == "square" {
		h = w
	}
	switch r.Intn(3) {
	case 0:
		n.attrs = append(n.attrs, fmt.Sprintf("width: %d", w))
	case 1:
		n.attrs = append(n.attrs, fmt.Sprintf("height: %d", h))
	default:
		n.attrs = append(n.attrs, fmt.Sprintf("width: %d", w), fmt.Sprintf("height: %d", h))
	}
}

// leaf decorates n as a leaf object.
func (d *dg) leaf(n *dnode) {
	r, o := d.r, d.o
	if r.P(o.Special) {
		d.special(n)
	} else if r.P(o.Shapes) {
		n.shape = Pick(r, SimpleShapes)
	}
	d.commonAttrs(n, true)
	d.dims(n)
}

var dgCode = []string{"x := 1", "func main() {\n  fmt.Println(\"hi\")\n}", "SELECT * FROM t;", "a = b + c\nreturn a", "if (x < 3 && y > 2) { return; }"}
var dgMarkdown = []string{"# Title", "# I can do headers\n- lists\n- lists\n\nAnd other normal markdown stuff", "**bold** and *italic*", "plain paragraph", "## h2\n\n1. one\n2. two", "`code` span", "> quote"}
var dgLatex = []string{`\\frac{a}{b}`, `x^2 + y^2 = z^2`, `\\sum_{i=0}^{n} i`, `\\alpha\\beta`}
var dgTypes = []string{"int", "string", "\"[]byte\"", "bool", "uuid", "\"map[string]int\"", "timestamp", "(x, y int)"}

func (d *dg) blockString(tag, body string) string {
	// choose a pipe fence not occurring in the body
	fence := "|"
	for strings.Contains(body, fence) {
		fence += "|"
	}
	if strings.Contains(body, "\n") {
		return fence + tag + "\n" + body + "\n" + fence
	}
	return fence + tag + " " + body + " " + fence
}

func (d *dg) special(n *dnode) {
	r := d.r
	if r.P(d.o.Latex) {
		n.kind = dkText
		n.header = d.blockString("latex", Pick(r, dgLatex))
		return
	}
	switch r.Weighted(3, 3, 2, 2, 3, 2) {
	case 0: // class
		n.kind = dkClass
		n.shape = "class"
		for i, k := 0, r.Range(0, 5); i < k; i++ {
			f := plainName(r) + fmt.Sprint(i)
			switch r.Intn(5) {
			case 0:
				f = "+" + f
			case 1:
				f = "-" + f
			case 2:
				f = `\#` + f
			case 3:
				f = f + "(a int)"
			}
			if r.P(0.7) {
				n.attrs = append(n.attrs, f+": "+Pick(r, dgTypes))
			} else {
				n.attrs = append(n.attrs, f)
			}
		}
	case 1: // sql_table
		n.kind = dkSQL
		n.shape = "sql_table"
		for i, k := 0, r.Range(0, 6); i < k; i++ {
			c := plainName(r) + fmt.Sprint(i)
			n.cols = append(n.cols, c)
			line := c + ": " + r.Str("int", "varchar", "uuid", "timestamp", "\"decimal(10,2)\"")
			switch r.Intn(5) {
			case 0:
				line += " {constraint: primary_key}"
			case 1:
				line += " {constraint: foreign_key}"
			case 2:
				line += " {constraint: [primary_key; unique]}"
			}
			n.attrs = append(n.attrs, line)
		}
	case 2: // code
		n.kind = dkText
		if r.P(0.5) {
			n.header = d.blockString(r.Str("go", "sql", "js", "python", "txt"), Pick(r, dgCode))
		} else {
			n.shape = "code"
			n.header = Quote(Pick(r, dgCode))
		}
	case 3: // text shape, plain label
		n.kind = dkText
		n.shape = "text"
		// the label of a text shape is rendered as markdown: keep it well-formed
		words := make([]string, r.Range(1, 6))
		for i := range words {
			words[i] = Pick(r, dgWords)
		}
		n.header = Quote(strings.Join(words, r.Str(" ", " ", "\n")))
	case 4: // markdown
		n.kind = dkText
		n.header = d.blockString("md", Pick(r, dgMarkdown))
	case 5: // image
		n.kind = dkImage
		n.shape = "image"
		n.attrs = append(n.attrs, "icon: "+Pick(r, IconURLs))
	}
}

// fill adds children below n until the budget is used up.
func (d *dg) fill(n *dnode, budget *int) {
	r, o := d.r, d.o
	k := r.Range(1, 5)
	if n.parent == nil {
		k = r.Range(2, 6)
	}
	if n.kind == dkGrid {
		k = r.Range(1, 9)
	}
	for i := 0; i < k && *budget > 0; i++ {
		c := d.newNode(n)
		*budget--
		if c.depth < o.MaxDepth && *budget > 0 && r.P(o.Containers) {
			d.container(c, budget)
		} else {
			d.leaf(c)
		}
	}
}

func (d *dg) container(c *dnode, budget *int) {
	r, o := d.r, d.o
	switch {
	case r.P(o.Sequence):
		c.kind = dkSeq
		c.shape = "sequence_diagram"
		d.sequence(c, budget)
		d.commonAttrs(c, false)
	case r.P(o.Grids):
		c.kind = dkGrid
		d.gridAttrs(c)
		d.fill(c, budget)
		d.commonAttrs(c, false)
		d.dims(c) // grids may carry dimensions under every engine
	default:
		if r.P(0.15) {
			c.shape = Pick(r, SimpleShapes) // containers of any shape
		}
		d.fill(c, budget)
		d.commonAttrs(c, false)
		if r.P(o.Direction / 2) {
			c.attrs = append(c.attrs, "direction: "+Pick(r, Directions))
		}
		if d.descOK() {
			d.dims(c)
		}
	}
}

func (d *dg) gridAttrs(c *dnode) {
	r := d.r
	switch r.Intn(4) {
	case 0:
		c.attrs = append(c.attrs, fmt.Sprintf("grid-rows: %d", r.Range(1, 4)))
	case 1:
		c.attrs = append(c.attrs, fmt.Sprintf("grid-columns: %d", r.Range(1, 4)))
	case 2:
		c.attrs = append(c.attrs, fmt.Sprintf("grid-rows: %d", r.Range(1, 4)), fmt.Sprintf("grid-columns: %d", r.Range(1, 4)))
	default:
		c.attrs = append(c.attrs, fmt.Sprintf("grid-columns: %d", r.Range(1, 4)), fmt.Sprintf("grid-rows: %d", r.Range(1, 4)))
	}
	if r.P(0.3) {
		c.attrs = append(c.attrs, fmt.Sprintf("grid-gap: %d", r.Range(0, 60)))
	}
	if r.P(0.15) {
		c.attrs = append(c.attrs, fmt.Sprintf("vertical-gap: %d", r.Range(0, 80)))
	}
	if r.P(0.15) {
		c.attrs = append(c.attrs, fmt.Sprintf("horizontal-gap: %d", r.Range(0, 80)))
	}
}

// sequence fills a sequence diagram: actors, messages, spans, notes, groups. Everything
// inside is written as raw statements of the diagram's body (edges inside refer to actors
// by key, exactly as written in the declaration).
func (d *dg) sequence(s *dnode, budget *int) {
	r, o := d.r, d.o
	na := r.Range(1, 5)
	var actors []*dnode
	for i := 0; i < na; i++ {
		a := d.newNode(s)
		a.inSeq = true
		*budget--
		if r.P(0.4) {
			a.shape = Pick(r, ActorShapes)
		} else if r.P(0.08) {
			a.kind = dkImage
			a.shape = "image"
			a.attrs = append(a.attrs, "icon: "+Pick(r, IconURLs))
		}
		if r.P(o.Labels) {
			a.header = Quote(d.text())
		}
		if r.P(o.LabelPos * 0.3) {
			a.attrs = append(a.attrs, "label.near: "+Pick(r, LabelPositions))
		}
		if r.P(o.Styles * 0.5) {
			a.attrs = append(a.attrs, d.styleLine())
		}
		actors = append(actors, a)
	}
	nm := r.Range(0, 8)
	spanNames := []string{"t1", "t2", "a span", "s"}
	end := func(a *dnode) string {
		if a.kind != dkImage && r.P(0.2) { // span
			p := a.key + "." + Pick(r, spanNames)
			if r.P(0.2) {
				p += "." + Pick(r, spanNames) // nested span
			}
			return p
		}
		return a.key
	}
	msg := func() string {
		a, b := Pick(r, actors), Pick(r, actors)
		if a == b && !r.P(0.3) && len(actors) > 1 {
			for b == a {
				b = Pick(r, actors)
			}
		}
		st := end(a) + " " + Pick(r, Arrows) + " " + end(b)
		hasLabel := r.P(0.6)
		if hasLabel {
			st += ": " + Quote(d.text())
		}
		if r.P(o.EdgeStyles) {
			if !hasLabel {
				st += ":"
			}
			st += " {\n  " + strings.Join(d.edgeStyleLines(), "\n  ") + "\n}"
		}
		return st
	}
	var groupNames []string
	for i := 0; i < nm; i++ {
		switch {
		case r.P(0.12) && len(actors) > 0: // note: a child of an actor that takes no part in any edge
			a := Pick(r, actors)
			if a.kind == dkImage {
				continue
			}
			d.counter++
			s.body = append(s.body, fmt.Sprintf("%s.note%d: %s", a.key, d.counter, Quote(d.nonBlankText())))
		case r.P(0.12): // group
			d.counter++
			gname := fmt.Sprintf("group %d", d.counter)
			groupNames = append(groupNames, gname)
			var gb []string
			for j, k := 0, r.Range(1, 3); j < k; j++ {
				gb = append(gb, "  "+strings.ReplaceAll(msg(), "\n", "\n  "))
			}
			if r.P(0.2) { // nested group
				d.counter++
				gb = append(gb, fmt.Sprintf("  inner %d: {\n    %s\n  }", d.counter, strings.ReplaceAll(msg(), "\n", "\n    ")))
			}
			s.body = append(s.body, gname+": {\n"+strings.Join(gb, "\n")+"\n}")
		default:
			s.body = append(s.body, msg())
		}
	}
	_ = groupNames
}

// ---------------------------------------------------------------- edges

func (d *dg) edgeStyleLines() []string {
	r := d.r
	var lines []string
	{
		switch r.Intn(7) {
		case 0:
			lines = append(lines, "style.stroke: "+Quote(Pick(r, DiagramColors)))
		case 1:
			lines = append(lines, fmt.Sprintf("style.stroke-width: %d", r.Range(1, 15)))
		case 2:
			lines = append(lines, fmt.Sprintf("style.stroke-dash: %d", r.Range(0, 10)))
		case 3:
			lines = append(lines, "style.animated: true")
		case 4:
			lines = append(lines, fmt.Sprintf("style.font-size: %d", r.Range(8, 60)))
		case 5:
			lines = append(lines, fmt.Sprintf("style.opacity: 0.%d", r.Range(1, 9)))
		case 6:
			lines = append(lines, "style.bold: true", "style.italic: true")
		}
	}
	return lines
}

func (d *dg) arrowheadLines() []string {
	r := d.r
	var lines []string
	for _, side := range []string{"source-arrowhead", "target-arrowhead"} {
		if !r.P(0.6) {
			continue
		}
		switch r.Intn(4) {
		case 0:
			lines = append(lines, side+": "+Quote(Pick(r, []string{"1", "*", "0..n", "many", "x"})))
		case 1:
			lines = append(lines, side+".shape: "+Pick(r, DiagramArrowheads))
		case 2:
			lines = append(lines, side+": "+Quote(Pick(r, []string{"1", "*", "n"}))+" {\n    shape: "+Pick(r, DiagramArrowheads)+"\n  }")
		default:
			sh := Pick(r, []string{"triangle", "diamond", "circle", "box", "arrow"})
			lines = append(lines, side+": {\n    shape: "+sh+"\n    style.filled: "+r.Str("true", "false")+"\n  }")
		}
	}
	return lines
}

// relPath renders the key path of n as seen from scope (an ancestor-or-unrelated container):
// `_` segments up to the common ancestor, then down.
func relPath(n, scope *dnode, col string) string {
	// chain of ancestors of n (excluding root), top-down
	var up []string
	s := scope
	for s.parent != nil && s != n && !s.isAncestorOf(n) {
		up = append(up, "_")
		s = s.parent
	}
	var down []string
	for p := n; p != s && p != nil && p.parent != nil; p = p.parent {
		down = append([]string{p.key}, down...)
	}
	if s == n {
		// scope is n itself or below n: refer to n from inside → one more `_` and its own key
		up = append(up, "_")
		down = []string{n.key}
	}
	parts := append(up, down...)
	if col != "" {
		parts = append(parts, col)
	}
	return strings.Join(parts, ".")
}

func (d *dg) edgeAllowed(a, b *dnode) bool {
	if a.inSeq || b.inSeq {
		return false
	}
	if a == b {
		// IsDescendantOf is reflexive: self loops on grids, grid cells, sequence diagrams and
		// constant nears are "edges entering itself"
		if a.kind == dkGrid || a.kind == dkSeq || a.near || (a.parent != nil && a.parent.kind == dkGrid) {
			return false
		}
		if a.isContainer() {
			return d.descOK() && a.kind == dkPlain && !a.near && (a.parent == nil || a.parent.kind != dkGrid)
		}
		return true
	}
	for _, p := range [][2]*dnode{{a, b}, {b, a}} {
		x, y := p[0], p[1]
		if x.isAncestorOf(y) {
			// container → own descendant
			if !d.descOK() {
				return false
			}
			if x.kind == dkGrid || x.kind == dkSeq || x.near || (x.parent != nil && x.parent.kind == dkGrid) {
				return false
			}
		}
	}
	return true
}

func (d *dg) edges(root *dnode, all []*dnode) {
	r, o := d.r, d.o
	var cand []*dnode
	var tables []*dnode
	for _, n := range all {
		if !n.inSeq && n.parent != nil {
			cand = append(cand, n)
			if n.kind == dkSQL && len(n.cols) > 0 {
				tables = append(tables, n)
			}
		}
	}
	if len(cand) == 0 {
		return
	}
	ne := int(float64(len(cand))*o.Edges*r.Float64()*1.5 + 0.5)
	for i := 0; i < ne; i++ {
		var a, b *dnode
		colA, colB := "", ""
		switch {
		case len(tables) >= 2 && r.P(o.ColumnEdges):
			a, b = Pick(r, tables), Pick(r, tables)
			colA, colB = Pick(r, a.cols), Pick(r, b.cols)
			if a == b {
				colA, colB = "", ""
			}
		case r.P(o.SelfLoops):
			a = Pick(r, cand)
			b = a
		case r.P(0.5):
			// siblings
			a = Pick(r, cand)
			b = Pick(r, a.parent.kids)
		default:
			a, b = Pick(r, cand), Pick(r, cand)
		}
		if a.inSeq || b.inSeq || !d.edgeAllowed(a, b) {
			continue
		}
		if a.sroot() != b.sroot() && !r.P(o.CrossEdges) {
			continue
		}
		// chain: a -> b -> c
		chain := []*dnode{a, b}
		cols := []string{colA, colB}
		if colA == "" && r.P(0.15) {
			c := Pick(r, cand)
			if d.edgeAllowed(b, c) && (b.sroot() == c.sroot() || r.P(o.CrossEdges)) {
				chain = append(chain, c)
				cols = append(cols, "")
			}
		}
		// scope: root, or the nearest container that contains every endpoint strictly
		scope := root
		if r.P(o.RelScope) {
			scope = chain[0].parent
			for _, n := range chain {
				for scope != n.parent && !scope.isAncestorOf(n) {
					scope = scope.parent
				}
				if scope == n { // cannot happen (scope is a parent), defensive
					scope = n.parent
				}
			}
			if scope.kind == dkSeq {
				scope = root
			}
		} else if d.r.P(0.1) && chain[0].parent.parent != nil && chain[0].parent.kind != dkSeq {
			// written next to the source, other endpoints via `_`
			scope = chain[0].parent
		}
		var sb strings.Builder
		for j, n := range chain {
			if j > 0 {
				sb.WriteString(" " + Pick(r, Arrows) + " ")
			}
			sb.WriteString(relPath(n, scope, cols[j]))
		}
		st := sb.String()
		hasLabel := false
		if r.P(o.EdgeLabels) {
			st += ": " + Quote(d.text())
			hasLabel = true
		}
		var lines []string
		if r.P(o.EdgeStyles) {
			lines = append(lines, d.edgeStyleLines()...)
		}
		if r.P(o.Arrowheads) {
			lines = append(lines, d.arrowheadLines()...)
		}
		if len(lines) > 0 {
			if hasLabel {
				st += " {\n  " + strings.Join(lines, "\n  ") + "\n}"
			} else {
				st += ": {\n  " + strings.Join(lines, "\n  ") + "\n}"
			}
		}
		scope.edges = append(scope.edges, st)
	}
	// edges between the inside of a sequence diagram and the outside (rare)
	if o.SeqCross > 0 {
		for _, n := range all {
			if n.inSeq && n.parent != nil && n.parent.kind == dkSeq && r.P(o.SeqCross) {
				out := Pick(r, cand)
				if out == n.parent || out.isAncestorOf(n) || n.parent.near || out.near {
					continue
				}
				root.edges = append(root.edges, relPath(n, root, "")+" "+Pick(r, Arrows)+" "+relPath(out, root, ""))
			}
		}
	}
}

// ---------------------------------------------------------------- boards and rendering

func collect(n *dnode, out *[]*dnode) {
	*out = append(*out, n)
	for _, k := range n.kids {
		collect(k, out)
	}
}

// board renders one board. inherit: the board is a scenario/step (it inherits the content of
// its base, so it must not redefine the root as a special diagram).
func (d *dg) board(sb *strings.Builder, ind int, budget int, level int, inherit bool) {
	r, o := d.r, d.o
	root := &dnode{}
	if r.P(o.Direction) && !inherit {
		root.attrs = append(root.attrs, "direction: "+Pick(r, Directions))
	}
	switch {
	case !inherit && r.P(o.RootSpecial):
		if r.P(0.5) && o.Sequence > 0 {
			root.kind = dkSeq
			root.attrs = append(root.attrs, "shape: sequence_diagram")
			d.sequence(root, &budget)
		} else if o.Grids > 0 {
			root.kind = dkGrid
			d.gridAttrs(root)
			d.fill(root, &budget)
		}
	}
	if root.kind == dkPlain {
		for budget > 0 {
			before := budget
			d.fill(root, &budget)
			if budget == before {
				break
			}
		}
	}
	if root.kind != dkSeq && r.P(o.Near) {
		for i, k := 0, r.Range(1, 3); i < k; i++ {
			n := d.newNode(root)
			n.near = true
			b := r.Range(0, 3)
			if b > 0 && r.P(0.4) {
				if r.P(0.3) && o.Grids > 0 {
					n.kind = dkGrid
					d.gridAttrs(n)
				}
				d.fill(n, &b)
				d.commonAttrs(n, false)
			} else {
				d.leaf(n)
			}
			n.attrs = append(n.attrs, "near: "+Pick(r, NearConstants))
		}
	}
	var all []*dnode
	collect(root, &all)
	if d.o.Unsupported {
		for _, n := range all {
			if n.parent == nil || n.inSeq || n.near {
				continue
			}
			if r.P(0.08) && n.parent.kind != dkGrid && n.parent.shape != "hierarchy" {
				n.attrs = append(n.attrs, fmt.Sprintf("top: %d", r.Range(0, 500)), fmt.Sprintf("left: %d", r.Range(0, 500)))
			}
			if r.P(0.05) {
				// near: <object>: absolute path of an object that is neither ancestor nor descendant,
				// not in a grid / sequence diagram, without a constant near
				t := Pick(r, all)
				ok := t.parent != nil && t != n && !t.isAncestorOf(n) && !n.isAncestorOf(t) && !t.inSeq && !t.near
				for p := t; ok && p != nil; p = p.parent {
					if p.kind == dkGrid || (p.parent != nil && p.parent.kind == dkSeq) {
						ok = false // ClosestGridDiagram includes the target itself and the root
					}
					if p.parent != nil && p.key != p.name {
						ok = false // the near value is a scalar re-parsed as a key: keep it unquoted
					}
					if p.near {
						ok = false
					}
				}
				if ok {
					n.attrs = append(n.attrs, "near: "+relPath(t, root, ""))
				}
			}
		}
	}
	if root.kind != dkSeq {
		d.edges(root, all)
	}
	d.render(sb, root, ind)
	if level < 2 && r.P(o.Boards) {
		kw := r.Str("layers", "scenarios", "steps")
		if root.kind != dkPlain || inherit {
			kw = "layers"
		}
		pad := strings.Repeat("  ", ind)
		sb.WriteString(pad + kw + ": {\n")
		for i, k := 0, r.Range(1, 2); i < k; i++ {
			d.counter++
			fmt.Fprintf(sb, "%s  b%d: {\n", pad, d.counter)
			old := d.suffix
			d.suffix = fmt.Sprintf(" b%d", d.counter)
			d.board(sb, ind+2, r.Range(1, 6), level+1, kw != "layers")
			d.suffix = old
			sb.WriteString(pad + "  }\n")
		}
		sb.WriteString(pad + "}\n")
	}
}

func writeIndented(sb *strings.Builder, ind int, s string) {
	pad := strings.Repeat("  ", ind)
	for _, l := range strings.Split(s, "\n") {
		sb.WriteString(pad)
		sb.WriteString(l)
		sb.WriteByte('\n')
	}
}

func (d *dg) render(sb *strings.Builder, n *dnode, ind int) {
	if n.parent == nil {
		d.renderBody(sb, n, ind)
		return
	}
	head := n.key
	hasBody := n.shape != "" || len(n.attrs) > 0 || len(n.kids) > 0 || len(n.edges) > 0 || len(n.body) > 0
	if n.header != "" {
		head += ": " + n.header
		if hasBody {
			head += " {"
		}
	} else if hasBody {
		head += ": {"
	}
	// block strings span lines: keep their continuation lines unindented relative to the
	// fence (content of a block string is dedented by the parser; the closing fence may be
	// indented freely)
	writeIndented(sb, ind, head)
	if hasBody {
		d.renderBody(sb, n, ind+1)
		writeIndented(sb, ind, "}")
	}
}

func (d *dg) renderBody(sb *strings.Builder, n *dnode, ind int) {
	if n.shape != "" {
		writeIndented(sb, ind, "shape: "+n.shape)
	}
	// attributes, children and edges in a mildly shuffled but valid order: attributes
	// first (readability of witnesses), then children, then edges (edges never create
	// objects: all endpoints are declared).
	for _, a := range n.attrs {
		writeIndented(sb, ind, a)
	}
	for _, k := range n.kids {
		d.render(sb, k, ind)
	}
	for _, b := range n.body {
		writeIndented(sb, ind, b)
	}
	for _, e := range n.edges {
		writeIndented(sb, ind, e)
	}
}
