package gen

import (
	"strings"
	"unicode/utf8"
)

// Keywords of the language (lower case), for case-variant generation.
var Keywords = []string{
	"label", "shape", "icon", "constraint", "tooltip", "link", "near", "width", "height", "direction",
	"top", "left", "grid-rows", "grid-columns", "grid-gap", "vertical-gap", "horizontal-gap", "class", "vars",
	"style", "source-arrowhead", "target-arrowhead", "classes", "layers", "scenarios", "steps",
	"opacity", "stroke", "fill", "fill-pattern", "stroke-width", "stroke-dash", "border-radius", "font",
	"font-size", "font-color", "bold", "italic", "underline", "text-transform", "shadow", "multiple",
	"double-border", "3d", "animated", "filled",
	"null", "true", "false", "suspend", "unsuspend", "d2-config", "d2-legend", "_",
}

// HostileAlphabet is the 40-symbol alphabet used for exhaustive short strings.
var HostileAlphabet = []string{
	"a", "B", "1", "0", " ", "\t", "\n", ".", "-", ">", "<", "_", "*", "&", "!", "@", "#", ";", ":", "{", "}",
	"[", "]", "(", ")", "|", "'", "\"", "`", "$", "\\", "/", "%", "=", "é", "Ⱥ", "İ", "中", "😀", "\u200b",
}

var hostilePieces = []string{
	".", "..", "->", "<-", "--", "<->", ":", ";", "#", "{", "}", "[", "]", "(", ")", "|", "||", "`", "${", "${x}", "$",
	"\\", "\\n", "\\\"", "'", "\"", "''", "\"\"", "*", "**", "***", "&", "!&", "@", "@x", "...", "_", "-", "- ", " -",
	" ", "  ", "\t", "\n", "\r", "\u00a0", " ", "\u200b", "\ufeff",
	"é", "Ⱥ", "İ", "ı", "ß", "ǅ", "中文", "日本語", "😀", "👩‍👩‍👧", "\u0301", "\u202e", "עברית", "ｆｕｌｌ",
	"<", ">", "&amp;", "</text>", "<script>", "]]>", "-->", "<!--", "\x01", "\x7f",
	"0", "1", "-1", "1.5", "1e3", "0x10", "007", "+5", "NaN", "Inf",
}

// Name returns an identifier. hostile=false: plain [a-z][a-z0-9]*; hostile=true: a mix
// of plain pieces, keywords in random case and special characters (≤ max runes).
func Name(r *R, hostile bool, max int) string {
	if !hostile {
		return plainName(r)
	}
	switch r.Weighted(3, 2, 2, 5) {
	case 0:
		return plainName(r)
	case 1:
		return r.RandCase(Pick(r, Keywords))
	case 2:
		// one special piece surrounded by letters
		return plainName(r) + Pick(r, hostilePieces) + plainName(r)
	}
	var sb strings.Builder
	n := r.Range(1, 6)
	for i := 0; i < n; i++ {
		switch r.Intn(4) {
		case 0:
			sb.WriteString(plainName(r))
		case 1:
			sb.WriteString(r.RandCase(Pick(r, Keywords)))
		default:
			sb.WriteString(Pick(r, hostilePieces))
		}
	}
	s := sb.String()
	for utf8.RuneCountInString(s) > max {
		_, sz := utf8.DecodeLastRuneInString(s)
		s = s[:len(s)-sz]
	}
	if s == "" {
		s = "x"
	}
	return s
}

func plainName(r *R) string {
	const a = "abcdefghijklmnopqrstuvwxyz"
	n := r.Range(1, 5)
	b := make([]byte, n)
	for i := range b {
		b[i] = a[r.Intn(len(a))]
	}
	if r.P(0.2) {
		b = append(b, byte('0'+r.Intn(10)))
	}
	return string(b)
}

// UnicodeText returns random text for labels: mixes scripts, astral, combining marks.
func UnicodeText(r *R, maxRunes int) string {
	ranges := [][2]rune{
		{0x20, 0x7e}, {0x20, 0x7e}, {0xa0, 0xff}, {0x100, 0x24f}, {0x370, 0x3ff}, {0x400, 0x4ff},
		{0x590, 0x5ff}, {0x600, 0x6ff}, {0x900, 0x97f}, {0xe00, 0xe7f}, {0x2000, 0x206f}, {0x2190, 0x21ff},
		{0x2200, 0x22ff}, {0x2500, 0x257f}, {0x3040, 0x30ff}, {0x4e00, 0x4fff}, {0xac00, 0xacff},
		{0xff00, 0xffef}, {0x1f300, 0x1f64f}, {0x1d400, 0x1d4ff}, {0x300, 0x36f},
	}
	n := r.Range(1, maxRunes)
	var sb strings.Builder
	rg := Pick(r, ranges)
	for i := 0; i < n; i++ {
		if r.P(0.3) {
			rg = Pick(r, ranges)
		}
		c := rg[0] + rune(r.Intn(int(rg[1]-rg[0]+1)))
		if c >= 0xd800 && c <= 0xdfff {
			c = 'x'
		}
		sb.WriteRune(c)
	}
	return sb.String()
}

// Quote renders s as a D2 double-quoted string (independent of d2format, on purpose:
// generators must not depend on the code under test to build inputs).
func Quote(s string) string {
	var sb strings.Builder
	sb.WriteByte('"')
	for _, c := range s {
		switch c {
		case '"':
			sb.WriteString(`\"`)
		case '\\':
			sb.WriteString(`\\`)
		case '\n':
			sb.WriteString(`\n`)
		case '$':
			sb.WriteString(`\$`)
		default:
			sb.WriteRune(c)
		}
	}
	sb.WriteByte('"')
	return sb.String()
}

// SingleQuote renders s single-quoted ('' escapes '); newlines cannot be expressed, so
// callers must not pass them.
func SingleQuote(s string) string {
	return "'" + strings.ReplaceAll(s, "'", "''") + "'"
}

// IsPlain reports whether s can be written unquoted without any ambiguity.
func IsPlain(s string) bool {
	if s == "" {
		return false
	}
	for i, c := range s {
		switch {
		case c >= 'a' && c <= 'z', c >= 'A' && c <= 'Z', c == '_' && len(s) > 1:
		case c >= '0' && c <= '9' && i > 0:
		default:
			return false
		}
	}
	for _, k := range Keywords {
		if strings.EqualFold(s, k) {
			return false
		}
	}
	return true
}

// Key renders a name as a key segment: unquoted when plain, else quoted.
func Key(r *R, s string) string {
	if IsPlain(s) && !r.P(0.1) {
		return s
	}
	if !strings.ContainsAny(s, "\n") && r.P(0.3) {
		return SingleQuote(s)
	}
	return Quote(s)
}
