package gen

// Diagrams for C31/C47 (builder-render2): compilable programs that make the renderer use
// as many theme colour codes as possible (container nesting levels, every shape type,
// class / sql_table / code / markdown / text, sequence diagrams, edges with labels,
// 3d / multiple / double-border), with a hook to choose the text of every text-bearing
// place (C47 puts random Unicode there).

import (
	"fmt"
	"strings"
)

var themeShapes = []string{"rectangle", "square", "page", "parallelogram", "document", "cylinder", "queue", "package",
	"step", "callout", "stored_data", "person", "diamond", "oval", "circle", "hexagon", "cloud", "c4-person"}

// TextFn returns the text for a place ("label", "edge", "arrowhead", "class-field",
// "class-type", "table-col", "table-type", "code", "markdown", "tooltip", "title", "seq").
type TextFn func(place string) string

// PlainText is a TextFn producing short ASCII words.
func PlainText(r *R) TextFn {
	return func(string) string {
		s := plainName(r)
		if r.P(0.3) {
			s += " " + plainName(r)
		}
		return s
	}
}

// ThemeDiagram renders a diagram. opts are extra lines placed at the top (d2-config …).
func ThemeDiagram(r *R, text TextFn, header string) string {
	var b strings.Builder
	b.WriteString(header)
	w := func(f string, a ...any) { fmt.Fprintf(&b, f, a...) }
	q := func(place string) string { return Quote(text(place)) }
	mdSafe := func(place string) string {
		return strings.NewReplacer("|", "/", "\n", " ", "<", "(", ">", ")", "&", "+", "`", "'", "\\", "/").Replace(text(place))
	}
	var leaves []string
	shapeStyle := func(ind, sh string) {
		if r.P(0.2) {
			kw := []string{"multiple", "shadow", "bold", "italic", "underline"}
			switch sh {
			case "rectangle", "square":
				kw = append(kw, "3d", "double-border")
			case "hexagon":
				kw = append(kw, "3d")
			case "circle", "oval":
				kw = append(kw, "double-border")
			}
			w("%sstyle.%s: true\n", ind, Pick(r, kw))
		}
		if r.P(0.12) {
			w("%sstyle.font: mono\n", ind)
		}
		if r.P(0.1) {
			w("%sstyle.text-transform: %s\n", ind, r.Str("uppercase", "lowercase", "capitalize", "none"))
		}
		if r.P(0.1) {
			w("%sstyle.fill-pattern: %s\n", ind, r.Str("dots", "lines", "grain", "paper"))
		}
	}
	var emit func(prefix, ind string, depth int)
	emit = func(prefix, ind string, depth int) {
		n := r.Range(1, 3)
		for i := 0; i < n; i++ {
			id := fmt.Sprintf("%sn%d", strings.ReplaceAll(prefix, ".", "_"), i)
			path := prefix + id
			if depth < 3 && r.P(0.45) {
				w("%s%s: %s {\n", ind, id, q("label"))
				if r.P(0.2) {
					w("%s  style.%s: true\n", ind, r.Str("multiple", "3d", "double-border", "shadow"))
				}
				emit(path+".", ind+"  ", depth+1)
				w("%s}\n", ind)
				continue
			}
			sh := Pick(r, themeShapes)
			w("%s%s: %s {\n%s  shape: %s\n", ind, id, q("label"), ind, sh)
			shapeStyle(ind+"  ", sh)
			if r.P(0.15) {
				w("%s  tooltip: %s\n", ind, q("tooltip"))
			}
			if r.P(0.1) {
				w("%s  link: https://x.test/%s\n", ind, id)
			}
			w("%s}\n", ind)
			leaves = append(leaves, path)
		}
	}
	emit("", "", 0)
	if r.P(0.3) {
		w("title: %s {near: top-center; shape: text; style.font-size: 28}\n", Quote(mdSafe("title")))
	}
	if r.P(0.5) {
		w("kls: %s {\n  shape: class\n  %s: %s\n  %s: %s\n  %s: %s\n}\n", q("label"),
			Quote("+"+text("class-field")), q("class-type"), Quote("-"+text("class-field")+"(a int)"), q("class-type"), Quote("#"+text("class-field")), q("class-type"))
		leaves = append(leaves, "kls")
	}
	if r.P(0.5) {
		w("tbl: %s {\n  shape: sql_table\n  %s: %s {constraint: primary_key}\n  %s: %s {constraint: [foreign_key; unique]}\n  %s: %s\n}\n", q("label"),
			q("table-col"), q("table-type"), q("table-col"), q("table-type"), q("table-col"), q("table-type"))
		leaves = append(leaves, "tbl")
	}
	if r.P(0.45) {
		w("mdn: |md\n  # %s\n  %s **%s** *%s* `%s`\n\n  - %s\n|\n", mdSafe("markdown"), mdSafe("markdown"), mdSafe("markdown"), mdSafe("markdown"), mdSafe("markdown"), mdSafe("markdown"))
		leaves = append(leaves, "mdn")
	}
	if r.P(0.4) {
		w("cde: |%s\n  x := %s // %s\n|\n", r.Str("go", "js", "python", "text"), strings.NewReplacer("|", "/", "\n", " ").Replace(Quote(text("code"))), strings.NewReplacer("|", "/", "\n", " ").Replace(text("code")))
		leaves = append(leaves, "cde")
	}
	if r.P(0.3) {
		w("txt: %s {shape: text}\n", Quote(mdSafe("markdown")))
		leaves = append(leaves, "txt")
	}
	if r.P(0.3) {
		w("sqd: %s {\n  shape: sequence_diagram\n  alice: %s\n  bob: %s\n  alice -> bob: %s\n  bob.work -> alice: %s\n  grp: %s {\n    alice -> bob: %s\n  }\n  bob.%s: %s\n}\n",
			q("label"), q("seq"), q("seq"), q("seq"), q("seq"), q("seq"), q("seq"), "note", q("seq"))
	}
	ne := r.Range(1, 5)
	for i := 0; i < ne && len(leaves) > 1; i++ {
		a, c := Pick(r, leaves), Pick(r, leaves)
		w("%s %s %s: %s {\n", a, r.Str("->", "<->", "--", "<-"), c, q("edge"))
		if r.P(0.4) {
			w("  source-arrowhead: %s {shape: %s}\n", q("arrowhead"), r.Str("diamond", "circle", "cf-many", "arrow", "box", "cross"))
		}
		if r.P(0.4) {
			w("  target-arrowhead.label: %s\n", q("arrowhead"))
		}
		if r.P(0.2) {
			w("  style.%s: true\n", r.Str("bold", "italic", "underline", "animated"))
		}
		if r.P(0.1) {
			w("  style.font: mono\n")
		}
		w("}\n")
	}
	return b.String()
}
