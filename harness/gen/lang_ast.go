package gen

import (
	"strings"
)

// A small structured statement AST for the language-level metamorphic monitors
// (C12 globs, C13 substitutions, C14 imports, C15 boards, C42 lsp). Programs are generated as
// []*LStmt, rendered to D2 text with LRender, and the monitors derive their twin programs by
// rewriting the same AST. Everything is JSON-able so that a case carries the structure itself
// (a replay does not depend on generator code).

// LPart is one piece of a scalar value: literal text or a substitution ${a.b}.
type LPart struct {
	Lit string   `json:"l,omitempty"`
	Sub []string `json:"s,omitempty"`
}

// LVal is a scalar value.
type LVal struct {
	Parts []LPart `json:"p,omitempty"`
	Quote string  `json:"q,omitempty"` // "" unquoted, "d" double quoted, "s" single quoted
	Null  bool    `json:"n,omitempty"`
	Arr   []*LVal `json:"a,omitempty"` // array value [v1; v2] (Parts unused)
}

// LStmt is one statement (map node).
//
//	key statement   : Key [: Val] [{Body}]
//	edge statement  : [Key.](Src Arrow Dst)[Idx][.EKey] [: Val] [{Body}]   (parenthesised only when needed)
//	raw statement   : Raw (verbatim line: comments, filters, spreads, imports)
//
// Segments of Key/Src/Dst/EKey are rendered verbatim (the generator quotes where needed), so a
// segment may be a glob pattern.
type LStmt struct {
	Key     []string `json:"k,omitempty"`
	Src     []string `json:"src,omitempty"`
	Dst     []string `json:"dst,omitempty"`
	Arrow   string   `json:"ar,omitempty"`
	Idx     string   `json:"ix,omitempty"` // "", "0", "1", "*"
	EKey    []string `json:"ek,omitempty"`
	Val     *LVal    `json:"v,omitempty"`
	Body    []*LStmt `json:"b,omitempty"`
	HasBody bool     `json:"hb,omitempty"` // render a (possibly empty) map
	Raw     string   `json:"raw,omitempty"`
	Tag     string   `json:"t,omitempty"` // free semantic tag for the twin builders
	Imp     *LImp    `json:"imp,omitempty"`
}

// LImp is an import: spread (`...@path[.key]`, Key of the statement unused) or value
// (`Key: @path[.key]`). Path is written as given (relative to the importing file, with or
// without `./`, `../`, `.d2`); Quoted renders it as a double-quoted string.
type LImp struct {
	Path   string   `json:"p"`
	Key    []string `json:"k,omitempty"`
	Spread bool     `json:"s,omitempty"`
	Quoted bool     `json:"q,omitempty"`
}

func (i *LImp) Render() string {
	p := i.Path
	if i.Quoted {
		// the leading ./ ../ run stays outside the quotes (it is the import's "pre")
		j := 0
		for j < len(p) && (p[j] == '.' || p[j] == '/') {
			j++
		}
		p = p[:j] + `"` + p[j:] + `"`
	}
	s := "@" + p
	if len(i.Key) > 0 {
		s += "." + strings.Join(i.Key, ".")
	}
	if i.Spread {
		return "..." + s
	}
	return s
}

func LLit(s string) *LVal     { return &LVal{Parts: []LPart{{Lit: s}}} }
func LNull() *LVal            { return &LVal{Null: true} }
func (s *LStmt) IsEdge() bool { return len(s.Src) > 0 }

// Clone deep-copies a statement list.
func LClone(in []*LStmt) []*LStmt {
	if in == nil {
		return nil
	}
	out := make([]*LStmt, len(in))
	for i, s := range in {
		c := *s
		c.Key = append([]string(nil), s.Key...)
		c.Src = append([]string(nil), s.Src...)
		c.Dst = append([]string(nil), s.Dst...)
		c.EKey = append([]string(nil), s.EKey...)
		if s.Val != nil {
			c.Val = s.Val.Clone()
		}
		c.Body = LClone(s.Body)
		if s.Imp != nil {
			im := *s.Imp
			im.Key = append([]string(nil), s.Imp.Key...)
			c.Imp = &im
		}
		out[i] = &c
	}
	return out
}

func (v *LVal) Clone() *LVal {
	if v == nil {
		return nil
	}
	c := *v
	c.Parts = make([]LPart, len(v.Parts))
	for j, p := range v.Parts {
		c.Parts[j] = LPart{Lit: p.Lit, Sub: append([]string(nil), p.Sub...)}
	}
	if v.Arr != nil {
		c.Arr = make([]*LVal, len(v.Arr))
		for i, x := range v.Arr {
			c.Arr[i] = x.Clone()
		}
	}
	return &c
}

// Render renders a scalar (or array) value.
func (v *LVal) Render() string {
	if v == nil {
		return ""
	}
	if v.Null {
		return "null"
	}
	if v.Arr != nil {
		el := make([]string, len(v.Arr))
		for i, x := range v.Arr {
			el[i] = x.Render()
		}
		return "[" + strings.Join(el, "; ") + "]"
	}
	var sb strings.Builder
	for _, p := range v.Parts {
		if p.Sub != nil {
			sb.WriteString("${" + strings.Join(p.Sub, ".") + "}")
		} else {
			sb.WriteString(p.Lit)
		}
	}
	switch v.Quote {
	case "d":
		return `"` + sb.String() + `"`
	case "s":
		return "'" + sb.String() + "'"
	}
	return sb.String()
}

// Head renders the key part of a statement (without value).
func (s *LStmt) Head() string {
	if s.Raw != "" {
		return s.Raw
	}
	if !s.IsEdge() {
		return strings.Join(s.Key, ".")
	}
	ar := s.Arrow
	if ar == "" {
		ar = "->"
	}
	e := strings.Join(s.Src, ".") + " " + ar + " " + strings.Join(s.Dst, ".")
	if s.Idx == "" && len(s.EKey) == 0 && len(s.Key) == 0 {
		return e
	}
	h := "(" + e + ")"
	if s.Idx != "" {
		h += "[" + s.Idx + "]"
	}
	if len(s.Key) > 0 {
		h = strings.Join(s.Key, ".") + "." + h
	}
	if len(s.EKey) > 0 {
		h += "." + strings.Join(s.EKey, ".")
	}
	return h
}

// LRender renders a statement list as D2 text.
func LRender(stmts []*LStmt) string {
	var sb strings.Builder
	lrender(&sb, stmts, 0)
	return sb.String()
}

func lrender(sb *strings.Builder, stmts []*LStmt, depth int) {
	ind := strings.Repeat("  ", depth)
	for _, s := range stmts {
		sb.WriteString(ind)
		if s.Raw != "" {
			sb.WriteString(s.Raw)
			sb.WriteString("\n")
			continue
		}
		if s.Imp != nil {
			if s.Imp.Spread {
				sb.WriteString(s.Imp.Render() + "\n")
			} else {
				sb.WriteString(s.Head() + ": " + s.Imp.Render() + "\n")
			}
			continue
		}
		sb.WriteString(s.Head())
		hasBody := s.HasBody || len(s.Body) > 0
		if s.Val != nil {
			sb.WriteString(": ")
			sb.WriteString(s.Val.Render())
			if hasBody {
				sb.WriteString(" ")
			}
		} else if hasBody {
			sb.WriteString(": ")
		}
		if hasBody {
			sb.WriteString("{\n")
			lrender(sb, s.Body, depth+1)
			sb.WriteString(ind + "}")
		}
		sb.WriteString("\n")
	}
}

// LCount returns the number of statements including nested ones.
func LCount(stmts []*LStmt) int {
	n := 0
	for _, s := range stmts {
		n += 1 + LCount(s.Body)
	}
	return n
}

// LShrink is statement-level delta debugging: it repeatedly removes single statements (at any
// depth, with their bodies) while fails(prog) stays true, with at most budget evaluations.
func LShrink(prog []*LStmt, fails func([]*LStmt) bool, budget int) []*LStmt {
	cur := LClone(prog)
	changed := true
	for changed && budget > 0 {
		changed = false
		n := LCount(cur)
		for i := n - 1; i >= 0 && budget > 0; i-- {
			cand := LClone(cur)
			if !lremoveNth(&cand, &i2{n: i}) {
				continue
			}
			budget--
			if fails(cand) {
				cur = cand
				changed = true
			}
		}
	}
	return cur
}

type i2 struct{ n int }

func lremoveNth(stmts *[]*LStmt, c *i2) bool {
	for i := 0; i < len(*stmts); i++ {
		if c.n == 0 {
			*stmts = append((*stmts)[:i], (*stmts)[i+1:]...)
			return true
		}
		c.n--
		if lremoveNth(&(*stmts)[i].Body, c) {
			return true
		}
	}
	return false
}
