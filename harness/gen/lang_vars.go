package gen

import "fmt"

// VarsProgram generates a program of the C13 fragment: 1–3 nested `vars` scopes with shadowing,
// substitutions alone / inside unquoted / double-quoted / single-quoted text, in labels,
// attributes, edge labels and arrays, and (rarely) a reference to an undefined variable.
//
// Conventions that keep the textual twin well defined in every target context:
//   - variable names carry their type: c* colours, s* shapes, n* numbers in [0,1], w* words,
//     m* maps of {k: word, c: colour}; a redefinition in an inner scope keeps the type;
//   - scalar strings of values use only [A-Za-z0-9 _-] without leading/trailing blanks;
//   - a variable definition only refers to variables defined earlier in the same block or in
//     an enclosing scope and not redefined in the same block (forward references inside one
//     vars block are outside the judged fragment), or — `x: ${x}-b` — to the same name in an
//     enclosing scope.
type varsGen struct {
	r      *R
	nObj   int
	nSq    int
	undef  bool
	sizeHi int
}

var (
	lvWords  = []string{"foo", "Bar", "baz9", "two words", "x-y", "A_b", "q"}
	lvColors = []string{"red", "blue", "green", "honeydew", "orange"}
	lvShapes = []string{"circle", "oval", "diamond", "hexagon", "cloud", "square"}
	lvNums   = []string{"0.5", "1", "0.25", "0", "0.75"}
	lvNames  = []string{"w", "w2", "c", "c2", "s", "n", "m", "wq"}
)

func lvKind(name string) byte { return name[0] }

type lvScope struct {
	defs   map[string]bool // defined in this scope's vars block
	parent *lvScope
}

func (s *lvScope) visible(name string) bool {
	for q := s; q != nil; q = q.parent {
		if q.defs[name] {
			return true
		}
	}
	return false
}

func (s *lvScope) visibleNames() []string {
	var out []string
	for _, n := range lvNames {
		if s.visible(n) {
			out = append(out, n)
		}
	}
	return out
}

// VarsProgram returns the program; big selects larger sizes (thorough tier).
func VarsProgram(r *R, big bool) []*LStmt {
	g := &varsGen{r: r, sizeHi: 7}
	if big {
		g.sizeHi = 14
	}
	g.undef = r.P(0.08)
	root := &lvScope{defs: map[string]bool{}}
	out := g.scope(root, 0, true)
	if r.P(0.12) {
		// a layer: variables of the base board stay visible
		lay := &lvScope{defs: map[string]bool{}, parent: root}
		body := g.scope(lay, 1, r.P(0.5))
		out = append(out, &LStmt{Key: []string{"layers"}, Body: []*LStmt{{Key: []string{"l1"}, Body: body, HasBody: true}}})
	}
	return out
}

func (g *varsGen) literalFor(kind byte) string {
	r := g.r
	switch kind {
	case 'c':
		return Pick(r, lvColors)
	case 's':
		return Pick(r, lvShapes)
	case 'n':
		return Pick(r, lvNums)
	}
	return Pick(r, lvWords)
}

func (g *varsGen) varsBlock(sc *lvScope, forceSome bool) *LStmt {
	r := g.r
	blk := &LStmt{Key: []string{"vars"}, Tag: "vars", HasBody: true}
	n := r.Range(1, 4)
	names := append([]string(nil), lvNames...)
	r.Shuffle(len(names), func(i, j int) { names[i], names[j] = names[j], names[i] })
	names = names[:n]
	later := map[string]bool{}
	for _, nm := range names {
		later[nm] = true
	}
	for _, nm := range names {
		delete(later, nm)
		d := &LStmt{Key: []string{nm}}
		kind := lvKind(nm)
		switch {
		case kind == 'm':
			d.Body = []*LStmt{
				{Key: []string{"k"}, Val: LLit(Pick(r, lvWords))},
				{Key: []string{"c"}, Val: LLit(Pick(r, lvColors))},
			}
			if r.P(0.3) {
				d.Body = d.Body[:1]
			}
		case kind == 'w' && r.P(0.45):
			// composed from another visible word variable (or the same name further out)
			var cands []string
			for _, o := range lvNames {
				if lvKind(o) != 'w' || later[o] {
					continue
				}
				if o == nm {
					if sc.parent != nil && sc.parent.visible(o) {
						cands = append(cands, o)
					}
					continue
				}
				if sc.defs[o] || (sc.parent != nil && sc.parent.visible(o)) {
					cands = append(cands, o)
				}
			}
			if len(cands) == 0 {
				d.Val = g.quoted(LLit(g.literalFor(kind)))
				break
			}
			ref := LPart{Sub: []string{Pick(r, cands)}}
			switch r.Intn(4) {
			case 0:
				d.Val = &LVal{Parts: []LPart{ref}}
			case 1:
				d.Val = &LVal{Parts: []LPart{ref, {Lit: "-b"}}}
			case 2:
				d.Val = &LVal{Parts: []LPart{{Lit: "pre "}, ref}, Quote: "d"}
			default:
				d.Val = &LVal{Parts: []LPart{{Lit: "p "}, ref, {Lit: " q"}}}
			}
		default:
			d.Val = LLit(g.literalFor(kind))
			if kind == 'w' {
				d.Val = g.quoted(d.Val)
			}
		}
		blk.Body = append(blk.Body, d)
		sc.defs[nm] = true
	}
	return blk
}

// quoted sometimes quotes a literal word value.
func (g *varsGen) quoted(v *LVal) *LVal {
	switch g.r.Intn(6) {
	case 0:
		v.Quote = "d"
	case 1:
		v.Quote = "s"
	}
	return v
}

func (g *varsGen) objName() string {
	return Pick(g.r, []string{"a", "b", "d", "e", "f", "g"})
}

// ref picks a substitution path for a variable kind; "" when none is visible.
func (g *varsGen) ref(sc *lvScope, kind byte) []string {
	r := g.r
	if g.undef && r.P(0.15) {
		g.undef = false
		return Pick(r, [][]string{{"zz"}, {"w9"}, {"m", "zz"}, {"undefined"}, {"w", "k"}})
	}
	var cands [][]string
	for _, n := range sc.visibleNames() {
		switch {
		case lvKind(n) == kind:
			cands = append(cands, []string{n})
		case lvKind(n) == 'm' && kind == 'w':
			cands = append(cands, []string{n, "k"})
		case lvKind(n) == 'm' && kind == 'c':
			cands = append(cands, []string{n, "c"})
		}
	}
	if len(cands) == 0 {
		return nil
	}
	return Pick(r, cands)
}

// labelVal builds a label value with substitutions in one of the quoting contexts.
func (g *varsGen) labelVal(sc *lvScope) *LVal {
	r := g.r
	kind := byte('w')
	if r.P(0.2) {
		kind = Pick(r, []byte{'c', 's', 'n'})
	}
	p := g.ref(sc, kind)
	if p == nil || r.P(0.12) {
		return g.quoted(LLit(Pick(r, lvWords)))
	}
	sub := LPart{Sub: p}
	switch r.Intn(9) {
	case 0, 1:
		return &LVal{Parts: []LPart{sub}}
	case 2:
		return &LVal{Parts: []LPart{{Lit: "pre "}, sub, {Lit: " post"}}}
	case 3:
		return &LVal{Parts: []LPart{sub, {Lit: "-x"}}}
	case 4:
		if p2 := g.ref(sc, 'w'); p2 != nil {
			return &LVal{Parts: []LPart{sub, {Sub: p2}}}
		}
		return &LVal{Parts: []LPart{{Lit: "x"}, sub}}
	case 5:
		return &LVal{Parts: []LPart{{Lit: "pre "}, sub, {Lit: " post"}}, Quote: "d"}
	case 6:
		return &LVal{Parts: []LPart{sub}, Quote: "d"}
	case 7:
		// single-quoted text carries a unique marker so that the monitor can recognise a wrongly
		// substituted form anywhere in the compiled graph
		g.nSq++
		return &LVal{Parts: []LPart{{Lit: fmt.Sprintf("sq%d ", g.nSq)}, sub, {Lit: " post"}}, Quote: "s"}
	}
	g.nSq++
	return &LVal{Parts: []LPart{{Lit: fmt.Sprintf("sq%d", g.nSq)}, sub}, Quote: "s"}
}

func (g *varsGen) attrStmt(sc *lvScope, prefix []string, edge bool) *LStmt {
	r := g.r
	type at struct {
		key  []string
		kind byte
	}
	ats := []at{{[]string{"style", "stroke"}, 'c'}, {[]string{"style", "opacity"}, 'n'}, {[]string{"style", "font-color"}, 'c'},
		{[]string{"style", "fill"}, 'c'}, {[]string{"shape"}, 's'}, {[]string{"tooltip"}, 'w'}}
	if edge {
		ats = ats[:3]
	}
	a := Pick(r, ats)
	p := g.ref(sc, a.kind)
	var v *LVal
	if p == nil {
		v = LLit(g.literalFor(a.kind))
	} else {
		v = &LVal{Parts: []LPart{{Sub: p}}}
		if a.kind != 'n' && r.P(0.2) {
			v.Quote = "d"
		}
	}
	return &LStmt{Key: append(append([]string{}, prefix...), a.key...), Val: v}
}

func (g *varsGen) scope(sc *lvScope, depth int, withVars bool) []*LStmt {
	r := g.r
	var out []*LStmt
	var vb *LStmt
	if withVars {
		vb = g.varsBlock(sc, true)
	}
	varsFirst := r.P(0.8)
	if vb != nil && varsFirst {
		out = append(out, vb)
	}
	n := r.Range(2, g.sizeHi)
	if depth > 0 {
		n = r.Range(1, 4)
	}
	var edges []*LStmt
	for i := 0; i < n; i++ {
		switch r.Weighted(5, 3, 3, 2, 1, 2) {
		case 0: // labelled object
			g.nObj++
			out = append(out, &LStmt{Key: []string{g.objName()}, Val: g.labelVal(sc)})
		case 1: // attribute
			out = append(out, g.attrStmt(sc, []string{g.objName()}, false))
		case 2: // edge with label or map
			e := &LStmt{Src: []string{g.objName()}, Dst: []string{g.objName()}, Arrow: Pick(r, []string{"->", "<-", "--", "<->"})}
			if r.P(0.6) {
				e.Val = g.labelVal(sc)
			}
			if r.P(0.3) {
				e.Body = []*LStmt{g.attrStmt(sc, nil, true)}
				if r.P(0.5) {
					e.Body = append(e.Body, &LStmt{Key: []string{"label"}, Val: g.labelVal(sc)})
				}
			}
			edges = append(edges, e)
			out = append(out, e)
		case 3: // nested scope
			if depth >= 2 {
				out = append(out, &LStmt{Key: []string{g.objName()}, Val: g.labelVal(sc)})
				break
			}
			inner := &lvScope{defs: map[string]bool{}, parent: sc}
			body := g.scope(inner, depth+1, r.P(0.65))
			st := &LStmt{Key: []string{g.objName()}, Body: body, HasBody: true}
			if r.P(0.3) {
				st.Val = g.labelVal(sc)
			}
			out = append(out, st)
		case 4: // array of classes
			p := g.ref(sc, 'w')
			arr := &LVal{Arr: []*LVal{LLit("k1"), LLit("k2")}}
			if p != nil {
				el := &LVal{Parts: []LPart{{Sub: p}}}
				if r.P(0.3) {
					el.Quote = "d"
				}
				arr.Arr[r.Intn(2)] = el
			}
			out = append(out, &LStmt{Key: []string{g.objName(), "class"}, Val: arr})
		case 5: // indexed edge reference to an earlier edge of this scope
			if len(edges) == 0 {
				out = append(out, g.attrStmt(sc, []string{g.objName()}, false))
				break
			}
			e := Pick(r, edges)
			out = append(out, &LStmt{Src: e.Src, Dst: e.Dst, Arrow: e.Arrow, Idx: "0", EKey: []string{"label"}, Val: g.labelVal(sc)})
		}
	}
	if vb != nil && !varsFirst {
		at := r.Intn(len(out) + 1)
		out = append(out[:at], append([]*LStmt{vb}, out[at:]...)...)
	}
	return out
}
