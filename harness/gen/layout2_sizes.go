package gen

// layout2_sizes.go — targeted workload of C21: boards of leaf shapes covering every shape
// type × label kind × font settings × icon × explicit width/height.

import (
	"fmt"
	"strings"
)

// L2Shapes are all DSL leaf shape values.
var L2Shapes = []string{
	"rectangle", "square", "page", "parallelogram", "document", "cylinder", "queue", "package",
	"step", "callout", "stored_data", "person", "c4-person", "diamond", "oval", "circle", "hexagon",
	"cloud", "text", "code", "class", "sql_table", "image",
}

var l2Words = []string{"alpha", "beta", "x", "Service", "database", "queue-42", "the quick brown fox", "WWWW", "iiii", "naïve", "日本語", "データベース", "知识", "한국어", "Ω≈ç√", "a_b", "API gateway", "0123456789"}

// L2Label returns a label value (already quoted / block-quoted for use after "label: " or as
// the primary value) and its kind.
func L2Label(r *R) (string, string) {
	switch r.Weighted(2, 5, 3, 3, 2, 1) {
	case 0:
		return `""`, "empty"
	case 1:
		return l2Quote(Pick(r, l2Words)), "short"
	case 2:
		n := r.Range(4, 20)
		var ws []string
		for i := 0; i < n; i++ {
			ws = append(ws, Pick(r, l2Words))
		}
		return l2Quote(strings.Join(ws, " ")), "long"
	case 3:
		n := r.Range(2, 8)
		var ls []string
		for i := 0; i < n; i++ {
			k := r.Range(1, 4)
			var ws []string
			for j := 0; j < k; j++ {
				ws = append(ws, Pick(r, l2Words))
			}
			ls = append(ls, strings.Join(ws, " "))
		}
		return l2Quote(strings.Join(ls, `\n`)), "multiline"
	case 4:
		n := r.Range(1, 12)
		var ws []string
		for i := 0; i < n; i++ {
			ws = append(ws, Pick(r, []string{"日本語", "データベース", "知识", "한국어", "中文标签", "テスト"}))
		}
		return l2Quote(strings.Join(ws, "")), "cjk"
	default:
		return l2Quote(strings.Repeat(Pick(r, []string{"W", "i", "m.", "long"}), r.Range(20, 80))), "verylong"
	}
}

func l2Quote(s string) string {
	return `"` + strings.ReplaceAll(s, `"`, `\"`) + `"`
}

var L2InsidePositions = []string{
	"top-left", "top-center", "top-right", "center-left", "center-center", "center-right",
	"bottom-left", "bottom-center", "bottom-right",
}
var L2OutsidePositions = []string{
	"outside-top-left", "outside-top-center", "outside-top-right", "outside-left-top", "outside-left-center", "outside-left-bottom",
	"outside-right-top", "outside-right-center", "outside-right-bottom", "outside-bottom-left", "outside-bottom-center", "outside-bottom-right",
}
var L2BorderPositions = []string{
	"border-top-left", "border-top-center", "border-top-right", "border-left-top", "border-left-center", "border-left-bottom",
	"border-right-top", "border-right-center", "border-right-bottom", "border-bottom-left", "border-bottom-center", "border-bottom-right",
}

// L2Leaf renders the body of one leaf shape (lines without indentation) and a feature tag list.
func L2Leaf(r *R, shape string) (lines []string, feats []string) {
	feats = append(feats, "shape_"+shape)
	if shape != "rectangle" || r.P(0.5) {
		lines = append(lines, "shape: "+shape)
	}
	lab, kind := L2Label(r)
	switch shape {
	case "code":
		feats = append(feats, "label_code") // the language block is appended below
	case "class":
		lines = append(lines, "label: "+lab)
		for i, n := 0, r.Range(0, 5); i < n; i++ {
			if r.P(0.5) {
				lines = append(lines, fmt.Sprintf("%sfield%d: %s", r.Str("", "+", "-", "#"), i, r.Str("int", "string", "\"[]Job\"", "map")))
			} else {
				lines = append(lines, fmt.Sprintf("%smethod%d(a int): %s", r.Str("", "+", "-"), i, r.Str("void", "error", "\"(x, y int)\"")))
			}
		}
		feats = append(feats, "label_"+kind)
	case "sql_table":
		if kind == "multiline" {
			lab, kind = l2Quote(Pick(r, l2Words)), "short"
		}
		lines = append(lines, "label: "+lab)
		for i, n := 0, r.Range(0, 6); i < n; i++ {
			c := ""
			if r.P(0.4) {
				c = " {constraint: " + r.Str("primary_key", "foreign_key", "unique", "[primary_key; unique]") + "}"
			}
			lines = append(lines, fmt.Sprintf("col%d: %s%s", i, r.Str("int", "varchar(255)", "timestamp with time zone", "uuid"), c))
		}
		feats = append(feats, "label_"+kind)
	case "image":
		lines = append(lines, "icon: https://icons.terrastruct.com/essentials/004-picture.svg")
		if r.P(0.6) {
			lines = append(lines, "label: "+lab)
			feats = append(feats, "label_"+kind)
		}
	case "text":
		if kind == "empty" {
			lab, kind = l2Quote(Pick(r, l2Words)), "short"
		}
		if r.P(0.5) {
			n := r.Range(1, 5)
			var md []string
			for i := 0; i < n; i++ {
				md = append(md, r.Str("# Title ", "## Sub ", "- item ", "", "**bold** ", "`code` ")+Pick(r, l2Words))
			}
			lines = append(lines, "label: |md\n    "+strings.Join(md, "\n    ")+"\n  |")
			feats = append(feats, "label_markdown")
		} else {
			lines = append(lines, "label: "+lab)
			feats = append(feats, "label_"+kind)
		}
	default:
		lines = append(lines, "label: "+lab)
		feats = append(feats, "label_"+kind)
	}
	if shape == "code" {
		n := r.Range(1, 8)
		var code []string
		for i := 0; i < n; i++ {
			code = append(code, r.Str("func main() {", "  x := 1", "}", "// 日本語 comment", "return fmt.Sprintf(\"%d\", verylongidentifier_number_one + another)", ""))
		}
		if strings.TrimSpace(strings.Join(code, "")) == "" {
			code[0] = "x := 1" // d2: block string cannot be empty
		}
		lines = append(lines, "label: |"+r.Str("go", "js", "python", "sh")+"\n    "+strings.Join(code, "\n    ")+"\n  |")
	}
	// fonts
	if r.P(0.35) {
		lines = append(lines, fmt.Sprintf("style.font-size: %d", Pick(r, []int{8, 10, 14, 16, 20, 24, 28, 32, 40, 55, 72, 100})))
		feats = append(feats, "font_size")
	}
	if r.P(0.2) {
		lines = append(lines, "style.bold: "+r.Str("true", "false"))
		feats = append(feats, "bold")
	}
	if r.P(0.2) {
		lines = append(lines, "style.italic: true")
		feats = append(feats, "italic")
	}
	if r.P(0.12) {
		lines = append(lines, "style.font: mono")
		feats = append(feats, "mono")
	}
	if r.P(0.08) {
		lines = append(lines, "style.text-transform: "+r.Str("uppercase", "lowercase", "capitalize"))
	}
	// icon
	hasIcon := false
	if shape != "image" && r.P(0.25) {
		hasIcon = true
		lines = append(lines, "icon: https://icons.terrastruct.com/essentials/005-programmer.svg")
		feats = append(feats, "icon")
		if r.P(0.4) {
			pos := Pick(r, L2InsidePositions)
			if r.P(0.4) {
				pos = Pick(r, L2OutsidePositions)
			}
			lines = append(lines, "icon.near: "+pos)
		}
	}
	_ = hasIcon
	// label position
	if r.P(0.3) {
		switch r.Weighted(5, 3, 1) {
		case 0:
			lines = append(lines, "label.near: "+Pick(r, L2InsidePositions))
			feats = append(feats, "labelpos_inside")
		case 1:
			lines = append(lines, "label.near: "+Pick(r, L2OutsidePositions))
			feats = append(feats, "labelpos_outside")
		default:
			lines = append(lines, "label.near: "+Pick(r, L2BorderPositions))
			feats = append(feats, "labelpos_border")
		}
	}
	// explicit dimensions
	dim := func() int {
		switch r.Intn(6) {
		case 0:
			return r.Range(5, 30)
		case 1:
			return r.Range(400, 1200)
		}
		return r.Range(30, 400)
	}
	switch r.Weighted(45, 35, 10, 10) {
	case 1:
		w, h := dim(), dim()
		if shape == "circle" || shape == "square" {
			h = w // the compiler rejects unequal width/height on these
			if r.P(0.3) {
				// only one given is allowed and both use it
				lines = append(lines, fmt.Sprintf("width: %d", w))
				feats = append(feats, "dims_one")
				break
			}
		}
		lines = append(lines, fmt.Sprintf("width: %d", w), fmt.Sprintf("height: %d", h))
		feats = append(feats, "dims_both")
	case 2:
		lines = append(lines, fmt.Sprintf("width: %d", dim()))
		feats = append(feats, "dims_one")
	case 3:
		lines = append(lines, fmt.Sprintf("height: %d", dim()))
		feats = append(feats, "dims_one")
	default:
		feats = append(feats, "dims_auto")
	}
	// modifiers
	if r.P(0.12) {
		switch shape {
		case "rectangle", "square", "hexagon":
			lines = append(lines, "style.3d: true")
			feats = append(feats, "3d")
		default:
			if shape != "image" && shape != "text" && shape != "code" && shape != "class" && shape != "sql_table" {
				lines = append(lines, "style.multiple: true")
				feats = append(feats, "multiple")
			}
		}
	}
	if r.P(0.05) {
		lines = append(lines, "tooltip: tip", "link: https://example.com")
	}
	return
}

// L2SizesBoard renders one board of C21: n leaf shapes (shape types drawn from `types`, all
// types cycled through by idx so that every type is covered), some inside plain containers, a
// few edges, optional root direction. Returns text and features.
func L2SizesBoard(r *R, idx int) (string, []string) {
	var b strings.Builder
	var feats []string
	if r.P(0.4) {
		fmt.Fprintf(&b, "direction: %s\n", r.Str("up", "down", "left", "right"))
	}
	n := r.Range(1, 7)
	var ids []string
	inContainer := false
	for i := 0; i < n; i++ {
		shape := L2Shapes[(idx*7+i)%len(L2Shapes)]
		if r.P(0.3) {
			shape = Pick(r, L2Shapes)
		}
		lines, f := L2Leaf(r, shape)
		feats = append(feats, f...)
		id := fmt.Sprintf("s%d", i)
		ind := ""
		if !inContainer && r.P(0.15) && i < n-1 {
			fmt.Fprintf(&b, "c%d: {\n", i)
			if r.P(0.5) {
				fmt.Fprintf(&b, "  label: %s\n", l2Quote(Pick(r, l2Words)))
			}
			inContainer = true
			feats = append(feats, "in_container")
		}
		if inContainer {
			ind = "  "
		}
		fmt.Fprintf(&b, "%s%s: {\n", ind, id)
		for _, l := range lines {
			fmt.Fprintf(&b, "%s  %s\n", ind, strings.ReplaceAll(l, "\n", "\n"+ind))
		}
		fmt.Fprintf(&b, "%s}\n", ind)
		if inContainer {
			ids = append(ids, "@"+id) // resolved below
			if r.P(0.5) || i == n-1 {
				b.WriteString("}\n")
				inContainer = false
			}
		} else {
			ids = append(ids, id)
		}
	}
	if inContainer {
		b.WriteString("}\n")
	}
	text := b.String()
	// resolve container-qualified ids by scanning the text (cheap and robust)
	var abs []string
	cur := ""
	for _, ln := range strings.Split(text, "\n") {
		if strings.HasPrefix(ln, "c") && strings.HasSuffix(ln, ": {") {
			cur = strings.TrimSuffix(ln, ": {")
		} else if ln == "}" {
			cur = ""
		} else if strings.HasPrefix(ln, "  s") && strings.HasSuffix(ln, ": {") && cur != "" {
			abs = append(abs, cur+"."+strings.TrimSuffix(strings.TrimSpace(ln), ": {"))
		} else if strings.HasPrefix(ln, "s") && strings.HasSuffix(ln, ": {") {
			abs = append(abs, strings.TrimSuffix(ln, ": {"))
		}
	}
	ne := 0
	if len(abs) > 1 {
		ne = r.Range(0, len(abs)+1)
	}
	for i := 0; i < ne; i++ {
		a, c := Pick(r, abs), Pick(r, abs)
		if a == c && r.P(0.7) {
			continue
		}
		lab := ""
		if r.P(0.3) {
			lab = ": " + l2Quote(Pick(r, l2Words))
		}
		text += fmt.Sprintf("%s %s %s%s\n", a, r.Str("->", "<-", "<->", "--"), c, lab)
		feats = append(feats, "edge")
	}
	_ = ids
	return text, feats
}
