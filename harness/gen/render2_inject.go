package gen

// Injection workload for C30 (builder-render2): a compilable diagram skeleton touching
// every place where a user-controlled string reaches the SVG, with sentinel payloads
// placed in chosen field classes. Every field class has its own sentinel tag
// (zq + two letters), so a parsed element/attribute whose *name* contains a tag names the
// field it came from.

import (
	"fmt"
	"sort"
	"strings"
)

// InjFieldClasses: field class → sentinel tag. "listed" classes are the ones the C30
// statement enumerates (labels outside markdown, tooltips, links, IDs, class names,
// colours and gradients); for the others (markdown, code, positioned = markdown-rendered
// tooltips, sql constraints, icon URLs) only the well-formedness clause applies.
var InjFieldClasses = map[string]string{
	"label":             "zqlb",
	"container-label":   "zqcn",
	"edge-label":        "zqel",
	"arrowhead-label":   "zqah",
	"tooltip":           "zqtt",
	"link":              "zqlk",
	"edge-link":         "zqek",
	"id":                "zqid",
	"class-name":        "zqcl",
	"gradient-position": "zqgp",
	"class-field":       "zqcf",
	"class-method":      "zqcm",
	"table-column":      "zqtc",
	"table-type":        "zqty",
	"legend-label":      "zqlg",
	"seq-label":         "zqsq",
	// unlisted
	"tooltip-near":     "zqtn",
	"table-constraint": "zqco",
	"icon":             "zqic",
	"markdown":         "zqmd",
	"code":             "zqcd",
}

// InjListed reports whether the injection clause of C30 covers the field class.
func InjListed(class string) bool {
	switch class {
	case "tooltip-near", "table-constraint", "icon", "markdown", "code":
		return false
	}
	return true
}

// InjPayloads: payload kind → template; ZQ is replaced by the field's sentinel tag.
var InjPayloads = map[string]string{
	"benign":      "ZQ ok",
	"elem":        `<ZQ a="1">x</ZQ>`,
	"elem-open":   `<ZQ>`,
	"elem-close":  `</text></g><ZQ/>`,
	"dq-attr":     `" ZQ="1`,
	"dq-elem":     `"><ZQ/><x y="`,
	"sq-attr":     `' ZQ='1`,
	"sq-elem":     `'><ZQ/><x y='`,
	"amp":         `&ZQ;`,
	"charref":     `&#60;ZQ&#62;`,
	"cdata-end":   `]]><ZQ/>`,
	"comment":     `--><ZQ/><!--`,
	"pi":          `<?ZQ x?>`,
	"style-close": `</style><ZQ/>`,
	"ctrl":        "ZQ\x01\x0b",
	"nonchar":     "ZQ\uffff\ufffe",
	"odd-valid":   "ZQ\x7f\u0085 \U0001F600",
	"bad-utf8":    "ZQ\xed\xa0\x80\xff",
}

func InjFieldList() []string {
	var out []string
	for k := range InjFieldClasses {
		out = append(out, k)
	}
	sort.Strings(out)
	return out
}

func InjPayloadList() []string {
	var out []string
	for k := range InjPayloads {
		out = append(out, k)
	}
	sort.Strings(out)
	return out
}

// InjSpec is one C30 case: the skeleton is a pure function of Struct; Pay maps field
// class → payload kind for the hostile classes (all others get benign text).
type InjSpec struct {
	Struct int64             `json:"struct"`
	Pay    map[string]string `json:"pay"`
}

// Only returns a copy with just one class hostile.
func (s InjSpec) Only(class string) InjSpec {
	return InjSpec{Struct: s.Struct, Pay: map[string]string{class: s.Pay[class]}}
}

// raw returns the text of one field instance. It draws from its own generator (keyed by
// the instance counter), never from the skeleton generator r, so that the skeleton is the
// same whatever Pay says (Only() must not change the structure).
func (s *injCtx) raw(class string, _ *R) string {
	s.k++
	r := New(s.Struct*1000003 + int64(s.k))
	tag := InjFieldClasses[class]
	kind, ok := s.Pay[class]
	if !ok {
		return tag + "ok" + plainName(r)
	}
	p := strings.ReplaceAll(InjPayloads[kind], "ZQ", tag)
	switch r.Intn(3) {
	case 0:
		return p
	case 1:
		return "a" + p + "b"
	}
	return p + " " + plainName(r)
}

// val renders a field value as a quoted D2 string.
func (s *injCtx) val(class string, r *R) string { return Quote(s.raw(class, r)) }

func (s *injCtx) gradient(r *R) string {
	tag := InjFieldClasses["gradient-position"]
	pos := "20%"
	if kind, ok := s.Pay["gradient-position"]; ok {
		// a colour-stop position may not contain white space (the stop would be dropped)
		p := strings.ReplaceAll(InjPayloads[kind], "ZQ", tag)
		p = strings.NewReplacer(" ", "/", "\x0b", "").Replace(p)
		pos = "20%" + p
	}
	c1 := r.Str("red", "#aabbcc", "rgb(10,20,30)", "steelblue")
	c2 := r.Str("blue", "#123", "white")
	switch r.Intn(3) {
	case 0:
		return fmt.Sprintf("linear-gradient(%s %s, %s)", c1, pos, c2)
	case 1:
		return fmt.Sprintf("linear-gradient(to right, %s, %s %s)", c1, c2, pos)
	}
	return fmt.Sprintf("radial-gradient(circle, %s %s, %s 90%%)", c1, pos, c2)
}

var injShapes = []string{"rectangle", "rectangle", "rectangle", "hexagon", "square", "page", "parallelogram", "document", "cylinder", "queue", "package",
	"step", "callout", "stored_data", "person", "diamond", "oval", "circle", "hexagon", "cloud", "c4-person"}

type injCtx struct {
	InjSpec
	k int
}

// Text renders the D2 program.
func (spec InjSpec) Text() string {
	s := &injCtx{InjSpec: spec}
	r := New(s.Struct)
	var b strings.Builder
	w := func(f string, a ...any) { fmt.Fprintf(&b, f, a...) }

	cls := s.val("class-name", r)
	// legend
	if r.P(0.35) {
		w("vars: {\n  d2-legend: %s {\n    la: %s {shape: %s}\n    lb: %s\n    la -> lb: %s {style.stroke-dash: 2}\n  }\n}\n",
			s.val("legend-label", r), s.val("legend-label", r), r.Str("cylinder", "person", "rectangle"), s.val("legend-label", r), s.val("legend-label", r))
	}
	if r.P(0.5) {
		w("classes: {\n  %s: {style.stroke-width: 3}\n}\n", cls)
	}
	// plain shapes
	n := r.Range(2, 5)
	ids := make([]string, n)
	for i := range ids {
		ids[i] = Quote(fmt.Sprintf("n%d", i) + s.raw("id", r))
		w("%s: %s {\n", ids[i], s.val("label", r))
		sh := Pick(r, injShapes)
		w("  shape: %s\n", sh)
		if r.P(0.6) {
			if r.P(0.25) {
				w("  tooltip: %s {near: %s}\n", s.val("tooltip-near", r), r.Str("top-left", "bottom-right", "center-left", "top-center"))
			} else {
				w("  tooltip: %s\n", s.val("tooltip", r))
			}
		}
		if r.P(0.6) {
			if r.P(0.5) {
				w("  link: %s\n", Quote("https://x.test/p?q="+s.raw("link", r)))
			} else {
				w("  link: %s\n", Quote("/"+s.raw("link", r)))
			}
		}
		if r.P(0.4) {
			w("  icon: %s\n", Quote("https://x.test/i.png?q="+strings.NewReplacer(" ", "+", "\x01", "", "\x0b", "", "\x7f", "").Replace(s.raw("icon", r))+"#f"))
		}
		if r.P(0.6) {
			if r.P(0.3) {
				w("  class: [%s; plain]\n", cls)
			} else {
				w("  class: %s\n", cls)
			}
		}
		switch r.Intn(5) {
		case 0:
			w("  style.fill: %s\n", Quote(s.gradient(r)))
		case 1:
			w("  style.stroke: %s\n", Quote(s.gradient(r)))
		case 2:
			w("  style.font-color: %s\n", Quote(s.gradient(r)))
		case 3:
			w("  style.fill: %s\n  style.stroke: %s\n", Quote(s.gradient(r)), Quote(s.gradient(r)))
		}
		if r.P(0.25) {
			kw := []string{"multiple", "shadow", "bold", "italic", "underline"}
			switch sh {
			case "rectangle", "square":
				kw = append(kw, "3d", "3d", "double-border", "double-border")
			case "hexagon":
				kw = append(kw, "3d", "3d")
			case "circle", "oval":
				kw = append(kw, "double-border", "double-border")
			}
			w("  style.%s: true\n", Pick(r, kw))
		}
		if r.P(0.15) {
			w("  style.fill-pattern: %s\n", r.Str("dots", "lines", "grain", "paper"))
		}
		if r.P(0.15) {
			w("  style.font: mono\n")
		}
		if r.P(0.15) {
			w("  label.near: %s\n", r.Str("outside-top-center", "border-top-left", "bottom-right", "outside-bottom-right"))
		}
		w("}\n")
	}
	// title (constant near)
	if r.P(0.3) {
		w("title: %s {near: top-center; shape: %s}\n", s.val("label", r), r.Str("rectangle", "page"))
	}
	// container
	if r.P(0.6) {
		w("ct: %s {\n  %s: %s\n  in2: %s {style.fill: %s}\n  style.fill: %s\n}\n", s.val("container-label", r),
			Quote("c"+s.raw("id", r)), s.val("label", r), s.val("label", r), Quote(s.gradient(r)), Quote(s.gradient(r)))
	}
	// class shape
	hasClass := r.P(0.6)
	classID := Quote("k" + s.raw("id", r))
	if hasClass {
		w("%s: %s {\n  shape: class\n", classID, s.val("label", r))
		w("  %s: %s\n", Quote("+"+s.raw("class-field", r)), s.val("class-field", r))
		w("  %s: %s\n", Quote("-"+s.raw("class-method", r)+"(a int)"), s.val("class-method", r))
		if r.P(0.5) {
			w("  style.border-radius: 6\n")
		}
		if r.P(0.3) {
			w("  style.fill: %s\n", Quote(s.gradient(r)))
		}
		w("}\n")
	}
	// sql table
	hasTable := r.P(0.6)
	tableID := Quote("t" + s.raw("id", r))
	if hasTable {
		w("%s: %s {\n  shape: sql_table\n", tableID, s.val("label", r))
		w("  %s: %s {constraint: %s}\n", s.val("table-column", r), s.val("table-type", r), r.Str("primary_key", "[foreign_key; unique]", s.val("table-constraint", r)))
		w("  c2: %s {constraint: %s}\n", s.val("table-type", r), s.val("table-constraint", r))
		if r.P(0.5) {
			w("  style.border-radius: 6\n")
		}
		if r.P(0.3) {
			w("  style.stroke: %s\n", Quote(s.gradient(r)))
		}
		w("}\n")
	}
	// markdown / code / latex-free text
	if r.P(0.5) {
		w("mdx: |md\n  # %s\n  some *text* %s\n|\n", strings.NewReplacer("|", "", "\n", " ").Replace(s.raw("markdown", r)), strings.NewReplacer("|", "", "\n", " ").Replace(s.raw("markdown", r)))
		if r.P(0.4) {
			w("mdx.style.fill: %s\n", Quote(s.gradient(r)))
		}
	}
	if r.P(0.5) {
		w("cdx: |go\n  x := %s\n|\n", strings.NewReplacer("|", "", "\n", " ").Replace(Quote(s.raw("code", r))))
	}
	// sequence diagram
	if r.P(0.3) {
		w("sq: %s {\n  shape: sequence_diagram\n  a: %s\n  b\n  a -> b: %s\n  b -> a.sp: %s\n  b.%s: %s\n}\n", s.val("container-label", r),
			s.val("seq-label", r), s.val("seq-label", r), s.val("seq-label", r), Quote("note"+s.raw("id", r)), s.val("seq-label", r))
	}
	// edges
	ends := append([]string{}, ids...)
	if hasClass {
		ends = append(ends, classID)
	}
	if hasTable {
		ends = append(ends, tableID)
	}
	ne := r.Range(1, 4)
	for i := 0; i < ne; i++ {
		a, c := Pick(r, ends), Pick(r, ends)
		w("%s %s %s: %s {\n", a, r.Str("->", "<->", "--", "<-"), c, s.val("edge-label", r))
		if r.P(0.5) {
			w("  source-arrowhead: %s {shape: %s}\n", s.val("arrowhead-label", r), r.Str("diamond", "circle", "cf-many", "arrow", "box", "cross"))
		}
		if r.P(0.5) {
			w("  target-arrowhead.label: %s\n", s.val("arrowhead-label", r))
		}
		if r.P(0.5) {
			w("  class: %s\n", cls)
		}
		if r.P(0.4) {
			w("  link: %s\n", Quote("https://x.test/e?q="+s.raw("edge-link", r)))
		}
		if r.P(0.3) {
			w("  icon: %s\n", Quote("https://x.test/e.png?"+strings.NewReplacer(" ", "+", "\x01", "", "\x0b", "", "\x7f", "").Replace(s.raw("icon", r))))
		}
		switch r.Intn(5) {
		case 0:
			w("  style.stroke: %s\n", Quote(s.gradient(r)))
		case 1:
			w("  style.fill: %s\n", Quote(s.gradient(r)))
		case 2:
			w("  style.font-color: %s\n", Quote(s.gradient(r)))
		}
		if r.P(0.2) {
			w("  style.animated: true\n")
		}
		if r.P(0.15) {
			w("  style.%s: true\n", r.Str("bold", "italic", "underline"))
		}
		w("}\n")
	}
	// root style
	if r.P(0.2) {
		w("style.fill: %s\n", Quote(s.gradient(r)))
	}
	return b.String()
}
