package gen

import (
	"fmt"
	"sort"
	"strings"
)

// The `edits` profile (DESIGN.md §2.2, §4 "Editing API"): a compilable program in which
// every object and every connection carries a unique label L<n> (so the monitors can
// match elements across an edit without trusting IDs), optionally spread over imported
// files and nested boards, plus a history of 1–20 *symbolic* d2oracle operations.
//
// Operations are symbolic because their arguments must refer to the state the history has
// reached ("the 3rd object of the addressed board", "a child of the 2nd container"), and
// that state only exists in the worker that runs the real d2oracle: the driver never
// runs d2 code. A symbolic operation carries integer selectors and literal strings; the
// monitors resolve them deterministically against the current graph
// (mon/oracle_common.go: orcResolve). The resolved call is a pure function of
// (files, ops), so replays are exact.

// EditOp is one symbolic operation.
type EditOp struct {
	Kind  string    `json:"k"`             // create set delete rename move reconnect updateimport
	Board int       `json:"b"`             // 0 = root board, n>0 = (n-1) mod #nested boards
	Var   int       `json:"v"`             // variant within the kind (see orcResolve)
	Sel   [3]int    `json:"s"`             // element selectors (mod number of candidates)
	Str   [2]string `json:"str"`           // literal arguments: names / values
	Desc  bool      `json:"desc,omitempty"` // Move: includeDescendants
}

// EditCase is one generated history.
type EditCase struct {
	Files map[string]string `json:"files"` // index.d2 is the edited file; others are imports
	Ops   []EditOp          `json:"ops"`
	Feat  []string          `json:"feat,omitempty"` // generator features used by the program
}

// EditStyleObj / EditStyleEdge: style attributes with a valid value generator, shared by
// the program generator and the op resolver.
var EditStyleObj = []string{"fill", "stroke", "opacity", "stroke-width", "stroke-dash", "border-radius", "shadow", "multiple",
	"font-size", "font-color", "bold", "italic", "underline", "fill-pattern", "text-transform", "3d", "double-border", "font"}
var EditStyleEdge = []string{"stroke", "opacity", "stroke-width", "stroke-dash", "animated", "font-size", "font-color", "bold", "italic", "underline"}

// EditStyleValue returns a valid value for a style attribute.
func EditStyleValue(r *R, k string) string {
	switch k {
	case "fill", "stroke", "font-color":
		return Pick(r, []string{"red", "blue", "#fff", "#00ff00", "honeydew", "transparent", "#12345678"})
	case "opacity":
		return Pick(r, []string{"0", "0.5", "1", "0.25"})
	case "stroke-width":
		return fmt.Sprint(r.Range(0, 15))
	case "stroke-dash":
		return fmt.Sprint(r.Range(0, 10))
	case "border-radius":
		return fmt.Sprint(r.Range(0, 20))
	case "font-size":
		return fmt.Sprint(r.Range(8, 100))
	case "shadow", "multiple", "bold", "italic", "underline", "animated", "3d", "double-border", "filled":
		return r.Str("true", "false")
	case "fill-pattern":
		return Pick(r, []string{"none", "dots", "lines", "grain", "paper"})
	case "text-transform":
		return Pick(r, []string{"none", "uppercase", "lowercase", "capitalize"})
	case "font":
		return "mono"
	}
	return "1"
}

// EditKey renders a name as exactly one key segment (no randomness: the resolver must be
// deterministic). Plain names stay unquoted.
func EditKey(s string) string {
	if IsPlain(s) {
		return s
	}
	return Quote(s)
}

// EditValues are keyword-like / quoting-sensitive values for Set.
var EditValues = []string{"null", "NULL", "Null", "true", "True", "FALSE", "suspend", "Suspend", "unsuspend", "label", "Label", "shape", "Shape",
	"style", "near", "_", "*", "**", "a.b", "a -> b", "x: y", "{", "}", "[", "]", "#hash", "semi;colon", "|pipe|", "|md x|", "'q'", "\"dq\"", "`bt`",
	"${x}", "sum: ${total}\nsee template", "a ${b} c\nd", "$", "\\", "\\n", "a\nb", " lead", "trail ", "  ", "", "1", "-1", "0.5", "007", "1e3", "@x", "...@x", "&x", "!&x", "é", "中文", "😀", "<b>", "&amp;", "\t", "a\\ b", "-", "--", "->", "x -"}

type edGen struct {
	r      *R
	nLabel int
	names  []string
	feat   map[string]bool
	// plain: the "plain" sub-profile — simple unquoted unique names, every object declared
	// exactly once by a single key (`n: L` / `n: L {…}`), attributes only inside the
	// object's own map, single connections with an inline label between declared siblings,
	// root board only, no imports, no near, no chains, no index references. Operations on
	// such programs carry no root-cause trigger and are judged strictly.
	plain  bool
	nPlain int
}

// edBoard is the generator's own model of one board: which object paths exist (and are
// labelled) and how many connections exist per (src,dst,arrows) so that index references
// can be rendered.
type edBoard struct {
	objs   map[string]*edObj
	order  []string
	edges  map[string]int
	closed map[string]bool // special shapes: no children / sub paths
}

type edObj struct {
	path     []string
	labelled bool
	// keyed: declared by a key statement of its own (not merely created as a connection
	// endpoint or as the container on a dotted path)
	keyed bool
	// noFix: never labelled by fixup (stays an implicit object that only exists through the
	// dotted path of a connection endpoint)
	noFix bool
}

func newEdBoard() *edBoard {
	return &edBoard{objs: map[string]*edObj{}, edges: map[string]int{}, closed: map[string]bool{}}
}

func (b *edBoard) copy() *edBoard {
	c := newEdBoard()
	for _, k := range b.order {
		o := *b.objs[k]
		c.objs[k] = &o
		c.order = append(c.order, k)
	}
	for k, v := range b.edges {
		c.edges[k] = v
	}
	for k, v := range b.closed {
		c.closed[k] = v
	}
	return c
}

func edPathKey(p []string) string { return strings.ToLower(strings.Join(p, "\x00")) }

// ensure registers path and all its prefixes as objects.
func (b *edBoard) ensure(p []string) *edObj {
	var o *edObj
	for i := 1; i <= len(p); i++ {
		k := edPathKey(p[:i])
		o = b.objs[k]
		if o == nil {
			o = &edObj{path: append([]string{}, p[:i]...)}
			b.objs[k] = o
			b.order = append(b.order, k)
		}
	}
	return o
}

func (b *edBoard) underClosed(p []string) bool {
	for i := 1; i <= len(p); i++ {
		if b.closed[edPathKey(p[:i])] {
			return true
		}
	}
	return false
}

func (g *edGen) label() string {
	g.nLabel++
	return fmt.Sprintf("L%d", g.nLabel)
}

func (g *edGen) name() string { return Pick(g.r, g.names) }

func edRel(parts []string) string {
	out := make([]string, len(parts))
	for i, p := range parts {
		if p == "_" {
			out[i] = "_"
		} else {
			out[i] = EditKey(p)
		}
	}
	return strings.Join(out, ".")
}

func edJoin(a []string, b ...string) []string {
	return append(append([]string{}, a...), b...)
}

type edW struct {
	sb strings.Builder
}

func (w *edW) line(d int, s string) {
	w.sb.WriteString(strings.Repeat("  ", d))
	w.sb.WriteString(s)
	w.sb.WriteString("\n")
}

// objAttr renders one attribute statement relative to an object ("" prefix = inside its map).
func (g *edGen) objAttr(prefix string, rootLevel bool, isContainer bool) string {
	r := g.r
	switch r.Weighted(30, 40, 6, 4, 4, 4, 4, 4, 4) {
	case 0:
		return prefix + "shape: " + Pick(r, SimpleShapes)
	case 1:
		k := Pick(r, EditStyleObj[:15])
		v := EditStyleValue(r, k)
		if strings.HasPrefix(v, "#") {
			v = Quote(v)
		}
		if r.P(0.3) {
			return prefix + "style: {" + k + ": " + v + "}"
		}
		return prefix + "style." + k + ": " + v
	case 2:
		return prefix + "tooltip: tip " + plainName(r)
	case 3:
		return prefix + "link: https://example.com/" + plainName(r)
	case 4:
		return prefix + "width: " + fmt.Sprint(r.Range(20, 300))
	case 5:
		return prefix + "height: " + fmt.Sprint(r.Range(20, 300))
	case 6:
		return prefix + "icon: https://icons.terrastruct.com/essentials/004-picture.svg"
	case 7:
		return prefix + "label.near: " + Pick(r, []string{"top-left", "outside-top-center", "bottom-right", "center-center"})
	default:
		if isContainer {
			return prefix + "direction: " + Pick(r, []string{"up", "down", "left", "right"})
		}
		return prefix + "style.opacity: 0.5"
	}
}

func (g *edGen) edgeAttr(prefix string) string {
	r := g.r
	switch r.Weighted(50, 15, 15, 10, 10) {
	case 0:
		k := Pick(r, EditStyleEdge)
		v := EditStyleValue(r, k)
		if strings.HasPrefix(v, "#") {
			v = Quote(v)
		}
		return prefix + "style." + k + ": " + v
	case 1:
		return prefix + r.Str("source-arrowhead", "target-arrowhead") + ".shape: " + Pick(r, Arrowheads[1:])
	case 2:
		return prefix + r.Str("source-arrowhead", "target-arrowhead") + ": " + r.Str("1", "*", "many") + " {shape: " + Pick(r, Arrowheads[1:]) + "}"
	case 3:
		return prefix + r.Str("source-arrowhead", "target-arrowhead") + ".label: " + r.Str("1", "n", "0..1")
	default:
		return prefix + "style: {stroke: red; stroke-dash: 3}"
	}
}

// stmts emits n statements into the scope `scope` (absolute path of the container).
func (g *edGen) stmts(w *edW, b *edBoard, scope []string, d, n, maxDepth int) {
	for i := 0; i < n; i++ {
		g.stmt(w, b, scope, d, maxDepth)
	}
}

func edIsAnc(a, b []string) bool { // a is a (non-strict) prefix of b, case-insensitively
	if len(a) > len(b) {
		return false
	}
	return edPathKey(a) == edPathKey(b[:len(a)])
}

func (g *edGen) relPath(b *edBoard, scope []string, allowUnderscore bool) (rel []string, abs []string) {
	r := g.r
	// existing object of this scope?
	if r.P(0.6) {
		var cands [][]string
		for _, k := range b.order {
			o := b.objs[k]
			if len(o.path) > len(scope) && len(o.path) <= len(scope)+2 && edIsAnc(scope, o.path) {
				cands = append(cands, o.path)
			}
		}
		if len(cands) > 0 {
			p := Pick(r, cands)
			return append([]string{}, p[len(scope):]...), append([]string{}, p...)
		}
	}
	if allowUnderscore && len(scope) > 0 && r.P(0.12) {
		g.feat["underscore"] = true
		n := g.name()
		return []string{"_", n}, edJoin(scope[:len(scope)-1], n)
	}
	n := 1
	if r.P(0.2) {
		n = 2
	}
	for i := 0; i < n; i++ {
		rel = append(rel, g.name())
	}
	return rel, edJoin(scope, rel...)
}

func (g *edGen) plainName() string {
	g.nPlain++
	return fmt.Sprintf("%s%d", plainName(g.r), g.nPlain)
}

func (g *edGen) plainAttrs(w *edW, d int) {
	r := g.r
	if r.P(0.45) {
		// both neighbouring style keys inline, so that an in-place update of one can be told
		// from an update of the other
		w.line(d, "style.fill: "+Pick(r, []string{"red", "blue", "honeydew"}))
		w.line(d, "style.stroke: "+Pick(r, []string{"red", "blue", "honeydew"}))
	}
	used := map[int]bool{}
	for i := 0; i < r.Range(0, 2); i++ {
		kind := r.Intn(5)
		if used[kind] {
			continue // never the same attribute twice in a plain map
		}
		used[kind] = true
		switch kind {
		case 0:
			w.line(d, "shape: "+Pick(r, SimpleShapes))
		case 1:
			k := Pick(r, EditStyleObj[2:13])
			w.line(d, "style."+k+": "+EditStyleValue(r, k))
		case 2:
			w.line(d, "tooltip: tip "+plainName(r))
		case 3:
			w.line(d, "width: "+fmt.Sprint(r.Range(20, 300)))
		default:
			w.line(d, "link: https://example.com/"+plainName(r))
		}
	}
}

func (g *edGen) plainStmt(w *edW, b *edBoard, scope []string, d, maxDepth int) {
	r := g.r
	var sibs [][]string
	for _, k := range b.order {
		o := b.objs[k]
		if len(o.path) == len(scope)+1 && edIsAnc(scope, o.path) {
			sibs = append(sibs, o.path)
		}
	}
	switch r.Weighted(30, 25, 20, 25) {
	case 0:
		n := g.plainName()
		b.ensure(edJoin(scope, n)).labelled = true
		w.line(d, n+": "+g.label())
	case 1:
		if d >= maxDepth {
			return
		}
		n := g.plainName()
		abs := edJoin(scope, n)
		b.ensure(abs).labelled = true
		w.line(d, n+": "+g.label()+" {")
		g.plainAttrs(w, d+1)
		for i := 0; i < r.Range(1, 3); i++ {
			g.plainStmt(w, b, abs, d+1, maxDepth)
		}
		w.line(d, "}")
		g.feat["container"] = true
	case 2:
		n := g.plainName()
		b.ensure(edJoin(scope, n)).labelled = true
		w.line(d, n+": "+g.label()+" {")
		g.plainAttrs(w, d+1)
		w.line(d, "}")
		g.feat["attr-map"] = true
	default:
		if len(sibs) < 2 {
			n := g.plainName()
			b.ensure(edJoin(scope, n)).labelled = true
			w.line(d, n+": "+g.label())
			return
		}
		x, y := Pick(r, sibs), Pick(r, sibs)
		if r.P(0.25) {
			g.bundle(w, b, scope, d, x, y)
			return
		}
		a := Pick(r, []string{"->", "->", "<-", "--", "<->"})
		k := edEdgeKey(x, y, a)
		b.edges[k]++
		s := x[len(x)-1] + " " + a + " " + y[len(y)-1] + ": " + g.label()
		if r.P(0.3) {
			s += " {style.stroke: " + Pick(r, []string{"red", "blue"}) + "}"
		}
		w.line(d, s)
		g.feat["edge"] = true
	}
}

func (g *edGen) stmt(w *edW, b *edBoard, scope []string, d, maxDepth int) {
	r := g.r
	if g.plain {
		g.plainStmt(w, b, scope, d, maxDepth)
		return
	}
	if r.P(0.04) {
		g.feat["comment"] = true
		w.line(d, "# note "+plainName(r))
	}
	switch r.Weighted(18, 14, 12, 10, 28, 5, 8, 3, 2) {
	case 0: // leaf with label
		rel, abs := g.relPath(b, scope, false)
		if b.underClosed(abs) {
			return
		}
		o := b.ensure(abs)
		o.keyed = true
		o.labelled = true
		switch r.Intn(4) {
		case 0:
			w.line(d, edRel(rel)+".label: "+g.label())
		case 1:
			w.line(d, edRel(rel)+": {label: "+g.label()+"}")
		default:
			w.line(d, edRel(rel)+": "+g.label())
		}
	case 1: // container
		if d >= maxDepth {
			return
		}
		rel, abs := g.relPath(b, scope, false)
		if b.underClosed(abs) {
			return
		}
		o := b.ensure(abs)
		o.keyed = true
		hdr := edRel(rel) + ": "
		inner := false
		if r.P(0.75) {
			hdr += g.label() + " "
			o.labelled = true
		} else if r.P(0.5) {
			inner = true
		}
		w.line(d, hdr+"{")
		if inner {
			w.line(d+1, "label: "+g.label())
			o.labelled = true
		}
		if r.P(0.3) {
			w.line(d+1, g.objAttr("", len(abs) == 1, true))
		}
		g.stmts(w, b, abs, d+1, r.Range(1, 4), maxDepth)
		w.line(d, "}")
		g.feat["container"] = true
	case 2: // bare / flat key without label
		rel, abs := g.relPath(b, scope, false)
		if b.underClosed(abs) {
			return
		}
		b.ensure(abs).keyed = true
		w.line(d, edRel(rel))
	case 3: // attribute on an object (flat form)
		rel, abs := g.relPath(b, scope, false)
		if b.underClosed(abs) {
			return
		}
		b.ensure(abs).keyed = true
		w.line(d, g.objAttr(edRel(rel)+".", len(abs) == 1, false))
		g.feat["flat-attr"] = true
	case 4: // connection(s)
		g.edgeStmt(w, b, scope, d)
	case 5: // reference to an existing connection by index
		g.edgeRefStmt(w, b, scope, d)
	case 6: // object with map of attributes
		rel, abs := g.relPath(b, scope, false)
		if b.underClosed(abs) {
			return
		}
		o := b.ensure(abs)
		o.keyed = true
		o.labelled = true
		w.line(d, edRel(rel)+": "+g.label()+" {")
		for i := 0; i < r.Range(1, 3); i++ {
			w.line(d+1, g.objAttr("", len(abs) == 1, false))
		}
		w.line(d, "}")
		g.feat["attr-map"] = true
	case 7: // special shapes whose children are fields, not objects
		n := g.name()
		abs := edJoin(scope, n)
		if b.underClosed(abs) || b.objs[edPathKey(abs)] != nil {
			return
		}
		o := b.ensure(abs)
		o.keyed = true
		o.labelled = true
		b.closed[edPathKey(abs)] = true
		if r.P(0.5) {
			w.line(d, EditKey(n)+": "+g.label()+" {")
			w.line(d+1, "shape: sql_table")
			w.line(d+1, "id: int {constraint: primary_key}")
			w.line(d+1, "v: text")
			w.line(d, "}")
			g.feat["sql_table"] = true
		} else {
			w.line(d, EditKey(n)+": "+g.label()+" {")
			w.line(d+1, "shape: class")
			w.line(d+1, "+f: int")
			w.line(d+1, "-m(a int): void")
			w.line(d, "}")
			g.feat["class"] = true
		}
	default: // near (root level objects only)
		if len(scope) != 0 {
			return
		}
		var roots []string
		for _, k := range b.order {
			if len(b.objs[k].path) == 1 {
				roots = append(roots, b.objs[k].path[0])
			}
		}
		if len(roots) == 0 {
			return
		}
		n := g.name()
		abs := []string{n}
		if b.underClosed(abs) {
			return
		}
		if r.P(0.5) {
			b.ensure(abs).keyed = true
			w.line(d, EditKey(n)+".near: "+Pick(r, []string{"top-left", "top-center", "top-right", "center-left", "center-right", "bottom-left", "bottom-center", "bottom-right"}))
			g.feat["near-const"] = true
			return
		}
		t := Pick(r, roots)
		if strings.EqualFold(t, n) {
			return
		}
		b.ensure(abs).keyed = true
		w.line(d, EditKey(n)+".near: "+EditKey(t))
		g.feat["near-object"] = true
	}
}

func edArrow(a string) (src, dst bool) {
	switch a {
	case "->":
		return false, true
	case "<-":
		return true, false
	case "<->":
		return true, true
	}
	return false, false
}

func edEdgeKey(src, dst []string, a string) string {
	return edPathKey(src) + "\x01" + edPathKey(dst) + "\x01" + a
}

func (g *edGen) edgeStmt(w *edW, b *edBoard, scope []string, d int) {
	r := g.r
	if len(scope) == 0 && r.P(0.07) {
		// a chain whose inner node sits under containers that exist only through this dotted
		// path (`x -> p.q.c -> y`): relocating c must keep p and p.q alive
		_, x := g.relPath(b, scope, false)
		_, y := g.relPath(b, scope, false)
		pn := fmt.Sprintf("im%d", g.nLabel)
		mid := []string{pn, "q", "c"}
		if len(x) == 1 && len(y) == 1 && !b.underClosed(x) && !b.underClosed(y) && b.objs[edPathKey(mid[:1])] == nil {
			b.ensure(x)
			b.ensure(y)
			b.ensure(mid)
			for i := 1; i <= 3; i++ {
				b.objs[edPathKey(mid[:i])].noFix = true
			}
			a1, a2 := Pick(r, []string{"->", "--"}), Pick(r, []string{"->", "<-"})
			b.edges[edEdgeKey(x, mid, a1)]++
			b.edges[edEdgeKey(mid, y, a2)]++
			w.line(d, edRel(x)+" "+a1+" "+edRel(mid)+" "+a2+" "+edRel(y))
			g.feat["chain-through-implicit-containers"] = true
			return
		}
	}
	if r.P(0.08) {
		_, x := g.relPath(b, scope, false)
		_, y := g.relPath(b, scope, false)
		if len(x) == len(scope)+1 && len(y) == len(scope)+1 && !b.underClosed(x) && !b.underClosed(y) {
			g.bundle(w, b, scope, d, x, y)
			return
		}
	}
	n := 2
	if r.P(0.2) {
		n = r.Range(3, 4)
		g.feat["chain"] = true
	}
	type end struct{ rel, abs []string }
	var ends []end
	for i := 0; i < n; i++ {
		rel, abs := g.relPath(b, scope, true)
		if b.underClosed(abs) {
			return
		}
		ends = append(ends, end{rel, abs})
	}
	var arrows []string
	for i := 0; i+1 < n; i++ {
		a := Pick(r, []string{"->", "->", "->", "<-", "--", "<->"})
		arrows = append(arrows, a)
		if edIsAnc(ends[i].abs, ends[i+1].abs) && len(ends[i].abs) != len(ends[i+1].abs) ||
			edIsAnc(ends[i+1].abs, ends[i].abs) && len(ends[i].abs) != len(ends[i+1].abs) {
			return // container <-> own descendant is a compile error
		}
	}
	var sb strings.Builder
	for i, e := range ends {
		if i > 0 {
			sb.WriteString(" " + arrows[i-1] + " ")
		}
		sb.WriteString(edRel(e.rel))
		b.ensure(e.abs)
	}
	idx := make([]int, len(arrows))
	for i, a := range arrows {
		k := edEdgeKey(ends[i].abs, ends[i+1].abs, a)
		idx[i] = b.edges[k]
		b.edges[k]++
	}
	g.feat["edge"] = true
	ref := func(i int) string {
		return fmt.Sprintf("(%s %s %s)[%d]", edRel(ends[i].rel), arrows[i], edRel(ends[i+1].rel), idx[i])
	}
	if n == 2 && r.P(0.75) {
		s := sb.String() + ": " + g.label()
		if r.P(0.25) {
			s += " {" + g.edgeAttr("") + "}"
			g.feat["edge-map"] = true
		}
		w.line(d, s)
		return
	}
	if n == 2 && r.P(0.5) {
		w.line(d, sb.String()+": {")
		w.line(d+1, "label: "+g.label())
		if r.P(0.5) {
			w.line(d+1, g.edgeAttr(""))
		}
		w.line(d, "}")
		g.feat["edge-map"] = true
		return
	}
	w.line(d, sb.String())
	for i := range arrows {
		if r.P(0.5) {
			w.line(d, ref(i)+": "+g.label())
		} else {
			w.line(d, ref(i)+".label: "+g.label())
		}
	}
	g.feat["edge-index-ref"] = true
}

// bundle emits 3–4 parallel connections between two siblings: the first and the last carry an
// inline label, the middle ones are labelled through explicit index keys. Deleting the first
// must renumber the index keys of the later ones.
func (g *edGen) bundle(w *edW, b *edBoard, scope []string, d int, x, y []string) {
	r := g.r
	a := Pick(r, []string{"->", "->", "--", "<-"})
	n := r.Range(3, 4)
	k := edEdgeKey(x, y, a)
	decl := edRel(x[len(scope):]) + " " + a + " " + edRel(y[len(scope):])
	b.ensure(x)
	b.ensure(y)
	// all declarations first, the index keys afterwards (an index key may only refer to a
	// connection declared above it)
	var later []string
	for i := 0; i < n; i++ {
		idx := b.edges[k]
		b.edges[k]++
		switch {
		case i == 0 || i == n-1:
			w.line(d, decl+": "+g.label())
		default:
			w.line(d, decl)
			later = append(later, fmt.Sprintf("(%s)[%d].label: %s", decl, idx, g.label()))
			if r.P(0.4) {
				later = append(later, fmt.Sprintf("(%s)[%d].style.stroke: %s", decl, idx, Pick(r, []string{"red", "blue"})))
			}
		}
	}
	for _, l := range later {
		w.line(d, l)
	}
	g.feat["parallel-bundle"] = true
}

func (g *edGen) edgeRefStmt(w *edW, b *edBoard, scope []string, d int) {
	// pick an existing edge whose both endpoints live under the scope
	var keys []string
	for k := range b.edges {
		keys = append(keys, k)
	}
	sort.Strings(keys)
	if len(keys) == 0 {
		return
	}
	k := Pick(g.r, keys)
	parts := strings.Split(k, "\x01")
	srcK, dstK, a := parts[0], parts[1], parts[2]
	so, do := b.objs[srcK], b.objs[dstK]
	if so == nil || do == nil || !edIsAnc(scope, so.path) || !edIsAnc(scope, do.path) {
		return
	}
	i := g.r.Intn(b.edges[k])
	ref := fmt.Sprintf("(%s %s %s)[%d]", edRel(so.path[len(scope):]), a, edRel(do.path[len(scope):]), i)
	if len(so.path) == len(scope) || len(do.path) == len(scope) {
		return
	}
	w.line(d, g.edgeAttr(ref+"."))
	g.feat["edge-index-ref"] = true
}

// fixup labels everything the model knows to be unlabelled.
func (g *edGen) fixup(w *edW, b *edBoard, d int, inherited *edBoard) {
	for _, k := range b.order {
		o := b.objs[k]
		if o.labelled {
			continue
		}
		if inherited != nil {
			if io := inherited.objs[k]; io != nil && io.labelled {
				continue
			}
		}
		if o.noFix {
			continue
		}
		if !o.keyed && g.r.P(0.35) {
			// stays an object that exists only through connections / dotted paths (no key
			// of its own, default label): boards that inherit it see it as an endpoint only
			g.feat["endpoint-only-object"] = true
			continue
		}
		o.labelled = true
		if g.r.P(0.5) {
			w.line(d, edRel(o.path)+": "+g.label())
		} else {
			w.line(d, edRel(o.path)+".label: "+g.label())
		}
	}
}

func (g *edGen) board(w *edW, b *edBoard, d, nStmts, boardDepth int) {
	g.stmts(w, b, nil, d, nStmts, 3)
}

func (g *edGen) boards(w *edW, base *edBoard, d, depth int) {
	r := g.r
	for _, kind := range []string{"layers", "scenarios", "steps"} {
		if !r.P(0.45) {
			continue
		}
		g.feat[kind] = true
		w.line(d, kind+": {")
		prev := base
		for i := 0; i < r.Range(1, 3); i++ {
			name := fmt.Sprintf("%s%d", kind[:1], g.r.Intn(90)+i*100)
			if r.P(0.2) {
				name = g.name()
				if !IsPlain(name) || strings.ContainsAny(name, ".\"") {
					name = "b" + fmt.Sprint(i)
				}
				name = fmt.Sprintf("%s%d", name, i)
			}
			var nb *edBoard
			var inh *edBoard
			switch kind {
			case "layers":
				nb = newEdBoard()
			case "scenarios":
				nb = base.copy()
				inh = base
			default:
				nb = prev.copy()
				inh = prev
			}
			w.line(d+1, name+": {")
			before := w.sb.Len()
			g.board(w, nb, d+2, r.Range(1, 5), depth)
			g.fixup(w, nb, d+2, inh)
			if w.sb.Len() == before {
				// never an empty board map: the formatter prints `name: {}` as `name`, which
				// is a different (non-inheriting) board
				n := fmt.Sprintf("bx%d", i)
				nb.ensure([]string{n}).labelled = true
				w.line(d+2, n+": "+g.label())
			}
			if depth < 1 && r.P(0.3) {
				g.feat["nested-boards"] = true
				g.boards(w, nb, d+2, depth+1)
			}
			w.line(d+1, "}")
			prev = nb
		}
		w.line(d, "}")
	}
}

// Edits generates one history case. maxOps ≤ 20.
func Edits(r *R, maxOps int) EditCase {
	g := &edGen{r: r, feat: map[string]bool{}}
	if r.P(0.3) {
		g.plain = true
		g.feat["plain-profile"] = true
		var w edW
		root := newEdBoard()
		g.names = []string{"unused"}
		g.stmts(&w, root, nil, 0, r.Range(3, 10), 2)
		c := EditCase{Files: map[string]string{"index.d2": w.sb.String()}}
		nOps := r.Range(1, maxOps)
		for i := 0; i < nOps; i++ {
			op := g.op(false)
			op.Board = 0
			op.Str[0] = plainName(r) + fmt.Sprint(r.Intn(90)+10)
			if r.P(0.15) {
				// quoting-sensitive *values* on otherwise plain programs (the operation is then not
				// counted as plain, but no root-cause trigger holds either)
				op.Str[0] = Pick(r, []string{"sum: ${total}\nsee template", "a ${b} c\nd", "two\nlines", "semi;colon", "x: y", "#hash", "a.b", "${x}", "'q'", "\"dq\"", " lead", "{", "|pipe|"})
			}
			c.Ops = append(c.Ops, op)
		}
		c.Feat = []string{"plain-profile"}
		return c
	}
	// name pool
	n := r.Range(4, 8)
	for i := 0; i < n; i++ {
		switch r.Weighted(60, 10, 12, 18) {
		case 0:
			g.names = append(g.names, plainName(r))
		case 1:
			if len(g.names) > 0 {
				g.names = append(g.names, strings.ToUpper(Pick(r, g.names)))
				g.feat["case-variant-names"] = true
			} else {
				g.names = append(g.names, plainName(r))
			}
		case 2:
			g.names = append(g.names, r.Str("x 2", "Text 3", "a b", "node 1", "x 10", "my node", "D2 Parser", "a-b", "x_y", "9lives", "x.y", "a->b"))
			g.feat["spaced-names"] = true
		default:
			nm := Name(r, true, 10)
			// objects named exactly like a keyword are left out of the *program*: d2graph
			// gives them an unquoted ID (`label`), so their own AbsID cannot be used as a key
			// (C05/C06 territory); operations still pass keyword-like names and values.
			for _, k := range Keywords {
				if strings.EqualFold(nm, k) {
					nm = "k" + nm
				}
			}
			g.names = append(g.names, nm)
			g.feat["hostile-names"] = true
		}
	}
	files := map[string]string{}
	root := newEdBoard()
	var w edW

	// imports first (spread at root, or into a container)
	if r.P(0.2) {
		g.feat["import"] = true
		ib := newEdBoard()
		var iw edW
		savedNames := g.names
		g.names = []string{"ia", "ib", "ic", Pick(r, savedNames)}
		g.stmts(&iw, ib, nil, 0, r.Range(1, 5), 2)
		g.fixup(&iw, ib, 0, nil)
		g.names = savedNames
		files["inc.d2"] = iw.sb.String()
		if r.P(0.3) {
			files["dir/inc2.d2"] = iw.sb.String()
		}
		if r.P(0.6) {
			w.line(0, "...@inc")
			for _, k := range ib.order {
				o := *ib.objs[k]
				root.objs[k] = &o
				root.order = append(root.order, k)
			}
			for k, v := range ib.edges {
				root.edges[k] = v
			}
			for k, v := range ib.closed {
				root.closed[k] = v
			}
			g.feat["import-spread-root"] = true
		} else {
			c := "imp"
			w.line(0, c+": "+g.label()+" {")
			w.line(1, "...@inc")
			w.line(0, "}")
			o := root.ensure([]string{c})
			o.labelled = true
			for _, k := range ib.order {
				io := ib.objs[k]
				no := root.ensure(edJoin([]string{c}, io.path...))
				no.labelled = io.labelled
			}
			for k, v := range ib.edges {
				parts := strings.Split(k, "\x01")
				root.edges[edPathKey([]string{c})+"\x00"+parts[0]+"\x01"+edPathKey([]string{c})+"\x00"+parts[1]+"\x01"+parts[2]] = v
			}
			for k := range ib.closed {
				root.closed[edPathKey([]string{c})+"\x00"+k] = true
			}
			g.feat["import-spread-container"] = true
		}
	}

	g.board(&w, root, 0, r.Range(2, 12), 0)
	g.fixup(&w, root, 0, nil)
	if r.P(0.5) {
		g.boards(&w, root, 0, 0)
	}
	files["index.d2"] = w.sb.String()

	c := EditCase{Files: files}
	nOps := r.Range(1, maxOps)
	hasImport := g.feat["import"]
	for i := 0; i < nOps; i++ {
		c.Ops = append(c.Ops, g.op(hasImport))
	}
	for k := range g.feat {
		c.Feat = append(c.Feat, k)
	}
	sort.Strings(c.Feat)
	return c
}

// value returns a literal for names / values: plain, spaced, hostile or keyword-like.
func (g *edGen) value() string {
	r := g.r
	switch r.Weighted(35, 10, 25, 20, 10) {
	case 0:
		return plainName(r)
	case 1:
		return plainName(r) + " " + fmt.Sprint(r.Range(2, 4))
	case 2:
		return Pick(r, EditValues)
	case 3:
		return Name(r, true, 12)
	default:
		return g.name()
	}
}

func (g *edGen) op(hasImport bool) EditOp {
	r := g.r
	op := EditOp{Var: r.Intn(1 << 20), Sel: [3]int{r.Intn(1 << 20), r.Intn(1 << 20), r.Intn(1 << 20)}}
	if r.P(0.45) {
		op.Board = 1 + r.Intn(1<<10)
	}
	wImp := 0
	if hasImport {
		wImp = 5
	}
	switch r.Weighted(20, 26, 20, 10, 15, 7, wImp) {
	case 0:
		op.Kind = "create"
	case 1:
		op.Kind = "set"
	case 2:
		op.Kind = "delete"
	case 3:
		op.Kind = "rename"
	case 4:
		op.Kind = "move"
		op.Desc = r.P(0.5)
	case 5:
		op.Kind = "reconnect"
	default:
		op.Kind = "updateimport"
	}
	op.Str[0] = g.value()
	op.Str[1] = g.label() // fresh unique tag, used by label-setting variants
	return op
}
