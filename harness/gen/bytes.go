package gen

import (
	"strings"
	"unicode/utf16"
)

// RawBytes returns hostile raw input: random bytes, invalid UTF-8, NULs, token soup.
func RawBytes(r *R, max int) []byte {
	n := r.Range(0, max)
	switch r.Intn(6) {
	case 0:
		return r.Bytes(n)
	case 1: // token soup
		toks := []string{"{", "}", "[", "]", "(", ")", ":", ";", ".", "->", "<-", "--", "<->", "|", "||", "|`", "`|", "'", "\"", "\\", "\n", " ", "#", "\"\"\"", "*", "**", "***", "&", "!&", "@", "...", "${", "}", "$", "_", "a", "b", "null", "true", "x.y", "1", "\t", "\r\n", "\\\n", "é", "😀", "\x00", "\xff", "\xc3", "\xe2\x82", "\xf0\x9f"}
		var sb strings.Builder
		for sb.Len() < n {
			sb.WriteString(Pick(r, toks))
		}
		return []byte(sb.String())
	case 2: // mostly ascii with invalid utf8 sprinkled
		b := []byte(Program(r, ProfileSyntax))
		for i := 0; i < r.Range(1, 5) && len(b) > 0; i++ {
			b[r.Intn(len(b))] = byte(0x80 + r.Intn(0x80))
		}
		return b
	case 3: // NULs and control characters
		b := []byte(Program(r, ProfileSyntax))
		for i := 0; i < r.Range(1, 5) && len(b) > 0; i++ {
			b[r.Intn(len(b))] = byte(r.Intn(0x20))
		}
		return b
	case 4: // UTF-16LE with BOM, maybe odd length
		return UTF16LE(Program(r, ProfileSyntax), true, r.P(0.3))
	default:
		s := Program(r, ProfileSyntax)
		if len(s) > n && n > 0 {
			s = s[:n] // truncated anywhere, also mid-rune
		}
		return []byte(s)
	}
}

// UTF16LE encodes s as UTF-16LE, optionally with BOM and a trailing odd byte.
func UTF16LE(s string, bom, odd bool) []byte {
	u := utf16.Encode([]rune(s))
	var b []byte
	if bom {
		b = append(b, 0xFF, 0xFE)
	}
	for _, c := range u {
		b = append(b, byte(c), byte(c>>8))
	}
	if odd {
		b = append(b, 'x')
	}
	return b
}

// Bombs returns structured nesting bombs of size about n.
func Bombs(n int) []string {
	rep := strings.Repeat
	return []string{
		rep("{", n), rep("a: {", n), rep("[", n), "x: " + rep("[", n), rep("(", n), rep("a.", n) + "b", rep("|", n), "x: " + rep("|", n) + "md",
		rep("a -> ", n) + "b", rep("a: {", n) + rep("}", n), rep("\\\n", n), rep("a\n", n), rep("\"", n), rep("'", n), rep("#", n),
		rep("*.", n) + "x", rep("${", n), "x: " + rep("${a}", n), rep("...@x\n", n/4+1), rep("(a -> b)[0].", n/8+1) + "x", rep("\"\"\"", n),
		rep("a: b; ", n), rep("x: [1; ", n), rep("&", n), rep("!", n) + "&x: y", rep("@", n), rep(" ", n) + "a", rep("\t", n), rep("a:", n),
		rep("x: |md\n", n/4+1), "x: |md " + rep("a", n), rep("é", n), rep("😀.", n) + "a", rep("_.", n) + "a", rep("layers: {a: {", n/4+1),
	}
}
