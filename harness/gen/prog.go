package gen

import (
	"fmt"
	"strings"
)

// Opts switches language features on (probabilities 0..1 per opportunity).
type Opts struct {
	Hostile  bool // hostile names / labels
	NamePool int  // distinct names to draw from (small => redeclarations collide)
	MaxDepth int
	MinStmts int
	MaxStmts int

	Edges, EdgeIdx, Nulls, Styles, Shapes, Labels, Comments, BlockStr, Arrays float64
	Globs, Filters, Vars, Classes, Boards, Special, Near, Config, KwCase       float64
	Dims, Icons, Links, Tooltips, Underscore, Invalid, Semis, Suspend         float64
	HostileLabels                                                             float64  // hostile text in label/value positions even when names are plain
	Imports                                                                   []string // importable file names (without .d2)
}

var (
	ProfileCore = Opts{NamePool: 6, MaxDepth: 3, MinStmts: 3, MaxStmts: 25,
		Edges: .35, EdgeIdx: .15, Nulls: .1, Styles: .25, Shapes: .2, Labels: .4, KwCase: .15, Underscore: .05, Semis: .1}
	ProfileLang = Opts{NamePool: 8, MaxDepth: 3, MinStmts: 3, MaxStmts: 30,
		Edges: .3, EdgeIdx: .1, Nulls: .08, Styles: .2, Shapes: .2, Labels: .4, Comments: .1, BlockStr: .05, Arrays: .05,
		Globs: .12, Filters: .3, Vars: .15, Classes: .1, Boards: .1, Special: .05, Near: .03, Config: .03, KwCase: .1,
		Dims: .05, Icons: .03, Links: .03, Tooltips: .03, Underscore: .04, Semis: .1, Suspend: .02}
	ProfileSyntax = Opts{Hostile: true, NamePool: 10, MaxDepth: 5, MinStmts: 1, MaxStmts: 30,
		Edges: .3, EdgeIdx: .15, Nulls: .1, Styles: .15, Shapes: .1, Labels: .4, Comments: .2, BlockStr: .15, Arrays: .15,
		Globs: .15, Filters: .3, Vars: .15, Classes: .08, Boards: .1, Special: .05, Near: .05, Config: .05, KwCase: .2,
		Dims: .05, Icons: .05, Links: .05, Tooltips: .05, Underscore: .08, Invalid: .15, Semis: .2, Suspend: .05,
		Imports: []string{"x", "y", "dir/z"}}
)

var Shapes = []string{"rectangle", "square", "page", "parallelogram", "document", "cylinder", "queue", "package", "step",
	"callout", "stored_data", "person", "diamond", "oval", "circle", "hexagon", "cloud", "text", "code", "class", "sql_table", "image", "sequence_diagram", "hierarchy", "c4-person"}

// SimpleShapes have no special content model.
var SimpleShapes = []string{"rectangle", "square", "page", "parallelogram", "document", "cylinder", "queue", "package", "step",
	"callout", "stored_data", "person", "diamond", "oval", "circle", "hexagon", "cloud", "c4-person"}

var Colors = []string{"red", "blue", "#fff", "#00ff00", "#12345678", "honeydew", "transparent", "linear-gradient(#fff, #000)", "PapayaWhip", "#ABCDEF"}
var Arrowheads = []string{"none", "arrow", "unfilled-triangle", "triangle", "diamond", "circle", "box", "cross", "cf-one", "cf-many", "cf-one-required", "cf-many-required"}
var Arrows = []string{"->", "<-", "--", "<->"}

type pg struct {
	r     *R
	o     Opts
	names []string
	sb    strings.Builder
	// paths declared so far (rendered key paths relative to root), for references
	declared []string
	vars     []string
	classes  []string
	nEdges   int
	depth    int
	trailing float64 // extra probability of a trailing comment after a closing brace
	rootD    int // depth of the current board's top-level statements
	edges    []string // declared "src arrow dst" at depth 0, for index references
}

// Program renders one D2 program for the options.
func Program(r *R, o Opts) string {
	p := newPG(r, o)
	n := r.Range(o.MinStmts, o.MaxStmts)
	if r.P(o.Boards * 0.2) {
		// a file that consists of board declarations only (often with trailing comments
		// after the closing braces)
		p.trailing = 0.5
		for p.sb.Len() == 0 {
			p.boards(0)
		}
		return p.sb.String()
	}
	if r.P(o.Vars) {
		p.varsBlock(0)
	}
	if r.P(o.Classes) {
		p.classesBlock(0)
	}
	if r.P(o.Config) {
		p.configBlock()
	}
	for i := 0; i < n; i++ {
		p.stmt(0, "", true)
	}
	if r.P(o.Boards) {
		p.boards(0)
	}
	if r.P(o.Boards * 0.3) {
		// content after the board block
		for i := 0; i < r.Range(1, 3); i++ {
			p.stmt(0, "", true)
		}
	}
	return p.sb.String()
}

func newPG(r *R, o Opts) *pg {
	p := &pg{r: r, o: o}
	if o.NamePool == 0 {
		o.NamePool = 6
	}
	for i := 0; i < o.NamePool; i++ {
		p.names = append(p.names, Name(r, o.Hostile && r.P(0.5), 12))
	}
	if !o.Hostile && r.P(0.3) {
		// case variants of the same name collide
		p.names = append(p.names, strings.ToUpper(p.names[0]))
	}
	return p
}

func (p *pg) ind(d int) {
	p.sb.WriteString(strings.Repeat("  ", d))
	if p.o.Hostile && p.r.P(0.04) {
		// Unicode white space is white space to the parser too
		p.sb.WriteString(Pick(p.r, UnicodeSpaces))
	}
}

// UnicodeSpaces are non-ASCII runes for which unicode.IsSpace holds.
var UnicodeSpaces = []string{"\u00a0", "\u0085", "\u1680", "\u2000", "\u2003", "\u2009", "\u200a", "\u2028", "\u2029", "\u202f", "\u205f", "\u3000"}

func (p *pg) name() string { return Key(p.r, Pick(p.r, p.names)) }

func (p *pg) kw(k string) string {
	if p.r.P(p.o.KwCase) {
		return p.r.RandCase(k)
	}
	return k
}

func (p *pg) keyPath() string {
	n := 1
	if p.r.P(0.3) {
		n = p.r.Range(2, 3)
	}
	parts := make([]string, n)
	for i := range parts {
		parts[i] = p.name()
	}
	if p.depth > 0 && p.r.P(p.o.Underscore) || p.depth == 0 && p.r.P(p.o.Underscore*0.1) {
		parts[0] = "_"
	}
	return strings.Join(parts, ".")
}

func (p *pg) eol() {
	if p.r.P(p.o.Semis) {
		p.sb.WriteString("; ")
		if p.o.Hostile && p.r.P(0.1) {
			p.sb.WriteString(Pick(p.r, UnicodeSpaces))
		}
		return
	}
	if p.r.P(p.o.Comments * 0.3) {
		p.sb.WriteString(" # " + strings.ReplaceAll(p.label(), "\n", " "))
	}
	p.sb.WriteString("\n")
}

func (p *pg) label() string {
	r := p.r
	if (p.o.Hostile && r.P(0.4)) || r.P(p.o.HostileLabels) {
		return Name(r, true, 20)
	}
	switch r.Intn(8) {
	case 0:
		return fmt.Sprint(r.Intn(1000))
	case 1:
		return plainName(r) + " " + plainName(r)
	case 2:
		return r.RandCase(Pick(r, []string{"null", "true", "false", "label", "shape", "suspend", "style", "near"}))
	case 3:
		if len(p.vars) > 0 {
			return "pre ${" + Pick(r, p.vars) + "} post"
		}
	}
	return plainName(r)
}

// value renders a scalar value for a label position.
func (p *pg) value() string {
	r := p.r
	if len(p.vars) > 0 && r.P(0.25) {
		return "${" + Pick(r, p.vars) + "}"
	}
	if r.P(p.o.BlockStr) {
		return p.blockString()
	}
	s := p.label()
	if strings.HasPrefix(s, "pre ${") {
		// substitution inside unquoted / double-quoted / single-quoted text
		switch r.Intn(3) {
		case 0:
			return s
		case 1:
			return `"` + s + `"`
		}
		return "'" + s + "'"
	}
	if IsPlainText(s) && !r.P(0.15) {
		return s
	}
	if !strings.Contains(s, "\n") && r.P(0.25) {
		return SingleQuote(s)
	}
	return Quote(s)
}

// IsPlainText: can s stand unquoted as a value.
func IsPlainText(s string) bool {
	if s == "" || strings.TrimSpace(s) != s {
		return false
	}
	for _, c := range s {
		switch {
		case c >= 'a' && c <= 'z', c >= 'A' && c <= 'Z', c >= '0' && c <= '9', c == ' ', c == '_':
		default:
			return false
		}
	}
	switch strings.ToLower(s) {
	case "null", "true", "false", "suspend", "unsuspend":
		return false
	}
	return true
}

func (p *pg) blockString() string {
	r := p.r
	tag := r.Str("md", "md", "", "go", "latex", "txt")
	body := r.Str("# hi\n- a\n- b", "x := 1 | 2", "a || b ||| c", "\\frac{1}{2}", "line", "`code` *em* **strong**", "|| nested ||")
	if r.P(0.4) {
		// multi-line body: nested indentation, blank and whitespace-only interior lines,
		// trailing whitespace
		var lines []string
		for k := r.Range(2, 6); k > 0; k-- {
			switch r.Intn(5) {
			case 0:
				lines = append(lines, "")
			case 1:
				lines = append(lines, strings.Repeat(" ", r.Range(1, 8)))
			case 2:
				lines = append(lines, strings.Repeat(" ", r.Range(0, 6))+plainName(r)+"()")
			case 3:
				lines = append(lines, "\t"+plainName(r))
			default:
				lines = append(lines, plainName(r)+" {"+strings.Repeat(" ", r.Intn(3)))
			}
		}
		lines = append(lines, "end")
		body = "\n" + strings.Repeat("  ", p.depth+1) + strings.Join(lines, "\n"+strings.Repeat("  ", p.depth+1)) + "\n" + strings.Repeat("  ", p.depth)
	}
	bars := "|"
	for strings.Contains(body, bars) {
		bars += "|"
	}
	if r.P(0.2) {
		bars += "`"
		if strings.HasPrefix(body, "\n") {
			return bars + tag + body + bars[1:] + "|"
		}
		return bars + tag + " " + body + " " + bars[1:] + "|"
	}
	if strings.HasPrefix(body, "\n") {
		return bars + tag + body + bars
	}
	return bars + tag + " " + body + " " + bars
}

// blockComment renders a block comment, sometimes multi-line with whitespace-only lines.
func (p *pg) blockComment(d int) string {
	r := p.r
	if r.P(0.5) {
		return "\"\"\" block\ncomment \"\"\"\n"
	}
	ind := strings.Repeat("  ", d)
	var sb strings.Builder
	sb.WriteString("\"\"\"\n")
	for k := r.Range(1, 5); k > 0; k-- {
		switch r.Intn(4) {
		case 0:
			sb.WriteString("\n")
		case 1:
			sb.WriteString(ind + strings.Repeat(" ", r.Range(1, 6)) + "\n")
		default:
			sb.WriteString(ind + strings.Repeat(" ", r.Intn(5)) + plainName(r) + "\n")
		}
	}
	sb.WriteString(ind + "\"\"\"\n")
	return sb.String()
}

func (p *pg) stmt(d int, scope string, allowMap bool) {
	r, o := p.r, p.o
	p.depth = d
	if r.P(o.Comments * 0.5) {
		p.ind(d)
		if r.P(0.2) {
			p.sb.WriteString(p.blockComment(d))
		} else {
			p.sb.WriteString("# " + strings.ReplaceAll(p.label(), "\n", " ") + "\n")
		}
	}
	if r.P(o.Invalid * 0.3) {
		p.ind(d)
		p.sb.WriteString(r.Str("{", "}", "->", ": :", "a -> ", "x: [", "(a -> b)[", "|md", "'unterminated", "\"unterminated", "...", "@", "a.", ".b", "x: {", "${", "&", "!&x", "***", "**.", "(a)[0]", "a -> b -> ", "x: |`md", "[1]", "a: b: c", "\\"))
		p.sb.WriteString("\n")
		return
	}
	p.ind(d)
	w := []int{30, int(o.Edges * 100), int(o.Styles * 100), int(o.Shapes * 100), int(o.Nulls * 100), int(o.Globs * 100),
		int(o.EdgeIdx * 100), int(o.Arrays * 100), int((o.Dims + o.Icons + o.Links + o.Tooltips + o.Near) * 100), int(o.Special * 100), 0, int(o.Suspend * 100)}
	if len(o.Imports) > 0 {
		w[10] = 6
	}
	switch r.Weighted(w...) {
	case 0: // plain key, maybe with label and/or map
		k := p.keyPath()
		p.sb.WriteString(k)
		p.declared = append(p.declared, scope+k)
		if r.P(o.Labels) {
			p.sb.WriteString(": " + p.value())
		}
		if allowMap && d < o.MaxDepth && r.P(0.3) {
			if !strings.Contains(p.tail(), ":") {
				p.sb.WriteString(":")
			}
			p.mapBody(d, scope+k+".")
			return
		}
		p.eol()
	case 1: // edge chain
		n := 2
		if r.P(0.2) {
			n = r.Range(3, 4)
		}
		var first, arrow, second string
		for i := 0; i < n; i++ {
			a := Pick(r, Arrows)
			if i > 0 {
				p.sb.WriteString(" " + a + " ")
			}
			k := p.keyPath()
			if i == 0 {
				first = k
			} else if i == 1 {
				arrow, second = a, k
			}
			p.sb.WriteString(k)
		}
		if d == p.rootD && n == 2 && !strings.HasPrefix(first, "_") && !strings.HasPrefix(second, "_") {
			p.edges = append(p.edges, first+" "+arrow+" "+second)
		}
		p.nEdges++
		if r.P(o.Labels) {
			p.sb.WriteString(": " + p.value())
		}
		if allowMap && r.P(0.2) {
			if !strings.Contains(p.tail(), ":") {
				p.sb.WriteString(":")
			}
			p.edgeBody(d)
			return
		}
		p.eol()
	case 2: // style
		k := p.keyPath()
		if r.P(0.5) {
			p.sb.WriteString(k + "." + p.kw("style") + "." + p.styleKV())
			p.eol()
		} else {
			p.sb.WriteString(k + "." + p.kw("style") + ": {\n")
			for i := 0; i < r.Range(1, 3); i++ {
				p.ind(d + 1)
				p.sb.WriteString(p.styleKV() + "\n")
			}
			p.ind(d)
			p.sb.WriteString("}\n")
		}
	case 3: // shape
		p.sb.WriteString(p.keyPath() + "." + p.kw("shape") + ": " + p.kwv(Pick(r, SimpleShapes)))
		p.eol()
	case 4: // null
		switch r.Intn(4) {
		case 0:
			p.sb.WriteString(p.keyPath() + ": " + p.kwv("null"))
		case 1:
			p.sb.WriteString(p.keyPath() + "." + p.kw("style") + "." + Pick(r, []string{"fill", "opacity", "stroke"}) + ": null")
		case 2:
			if d == p.rootD && len(p.edges) > 0 && r.P(0.9) {
				i := r.Intn(len(p.edges))
				p.sb.WriteString("(" + p.edges[i] + ")[0]: null")
				p.edges = append(p.edges[:i:i], p.edges[i+1:]...)
			} else if r.P(0.85) {
				p.sb.WriteString(p.keyPath() + ": " + p.kwv("null"))
			} else {
				p.sb.WriteString(fmt.Sprintf("(%s %s %s)[%d]: null", p.name(), Pick(r, Arrows), p.name(), r.Intn(2)))
			}
		default:
			p.sb.WriteString(p.keyPath() + "." + p.kw(Pick(r, []string{"label", "shape", "icon", "tooltip"})) + ": null")
		}
		p.eol()
	case 5: // glob
		p.glob(d)
	case 6: // edge index reference
		idx := fmt.Sprint(r.Intn(3))
		if r.P(0.2) {
			idx = "*"
		}
		if d == p.rootD && len(p.edges) > 0 && r.P(0.9) {
			if idx != "*" && r.P(0.9) {
				idx = "0"
			}
			p.sb.WriteString("(" + Pick(r, p.edges) + ")[" + idx + "]")
		} else if r.P(0.85) {
			// nothing to refer to: declare a connection instead
			p.sb.WriteString(p.name() + " " + Pick(r, Arrows) + " " + p.name())
			p.eol()
			return
		} else {
			p.sb.WriteString(fmt.Sprintf("(%s %s %s)[%s]", p.name(), Pick(r, Arrows), p.name(), idx))
		}
		switch r.Intn(3) {
		case 0:
			p.sb.WriteString(": " + p.value())
		case 1:
			p.sb.WriteString("." + p.kw("style") + "." + p.edgeStyleKV())
		default:
			p.sb.WriteString("." + p.kw(Pick(r, []string{"source-arrowhead", "target-arrowhead"})) + ": " + p.value())
		}
		p.eol()
	case 7: // array
		k := p.kw(Pick(r, []string{"class", "class", "x"}))
		p.sb.WriteString(p.keyPath() + "." + k + ": [")
		for i := 0; i < r.Range(0, 3); i++ {
			if i > 0 {
				p.sb.WriteString("; ")
			}
			if len(p.classes) > 0 && r.P(0.6) {
				p.sb.WriteString(Pick(r, p.classes))
			} else {
				p.sb.WriteString(p.value())
			}
		}
		p.sb.WriteString("]")
		p.eol()
	case 8: // misc attributes
		k := p.keyPath()
		switch r.Intn(8) {
		case 0:
			p.sb.WriteString(k + "." + p.kw("width") + ": " + fmt.Sprint(r.Range(1, 400)))
		case 1:
			p.sb.WriteString(k + "." + p.kw("height") + ": " + fmt.Sprint(r.Range(1, 400)))
		case 2:
			p.sb.WriteString(k + "." + p.kw("icon") + ": https://icons.terrastruct.com/essentials/004-picture.svg")
		case 3:
			p.sb.WriteString(k + "." + p.kw("link") + ": https://example.com/" + plainName(r))
		case 4:
			p.sb.WriteString(k + "." + p.kw("tooltip") + ": " + p.value())
		case 5:
			p.sb.WriteString(Key(r, Pick(r, p.names)) + "." + p.kw("near") + ": " + Pick(r, []string{"top-left", "top-center", "top-right", "center-left", "center-right", "bottom-left", "bottom-center", "bottom-right"}))
		case 6:
			p.sb.WriteString(k + "." + p.kw("direction") + ": " + Pick(r, []string{"up", "down", "left", "right"}))
		default:
			p.sb.WriteString(k + "." + p.kw("label") + "." + p.kw("near") + ": " + Pick(r, []string{"top-left", "outside-top-center", "bottom-right", "border-left-center", "center-center"}))
		}
		p.eol()
	case 9: // special diagrams
		k := Key(r, Pick(r, p.names))
		switch r.Intn(4) {
		case 0:
			p.sb.WriteString(k + ": {\n")
			p.ind(d + 1)
			p.sb.WriteString("shape: sequence_diagram\n")
			p.ind(d + 1)
			p.sb.WriteString("a -> b: m1\n")
			p.ind(d + 1)
			p.sb.WriteString("b -> a: m2\n")
			if r.P(0.4) {
				p.ind(d + 1)
				p.sb.WriteString("a.t -> b.t2\n")
			}
			p.ind(d)
			p.sb.WriteString("}\n")
		case 1:
			p.sb.WriteString(k + ": {\n")
			p.ind(d + 1)
			p.sb.WriteString(fmt.Sprintf("grid-rows: %d\n", r.Range(1, 3)))
			if r.P(0.5) {
				p.ind(d + 1)
				p.sb.WriteString(fmt.Sprintf("grid-columns: %d\n", r.Range(1, 3)))
			}
			for i := 0; i < r.Range(1, 5); i++ {
				p.ind(d + 1)
				p.sb.WriteString(p.name() + "\n")
			}
			p.ind(d)
			p.sb.WriteString("}\n")
		case 2:
			p.sb.WriteString(k + ": {\n")
			p.ind(d + 1)
			p.sb.WriteString("shape: sql_table\n")
			p.ind(d + 1)
			p.sb.WriteString("id: int {constraint: primary_key}\n")
			p.ind(d + 1)
			p.sb.WriteString(p.name() + ": " + p.value() + "\n")
			p.ind(d)
			p.sb.WriteString("}\n")
		default:
			p.sb.WriteString(k + ": {\n")
			p.ind(d + 1)
			p.sb.WriteString("shape: class\n")
			p.ind(d + 1)
			p.sb.WriteString("+f: int\n")
			p.ind(d + 1)
			p.sb.WriteString("-m(a int): void\n")
			p.ind(d)
			p.sb.WriteString("}\n")
		}
	case 10: // import
		f := Pick(r, o.Imports)
		switch r.Intn(3) {
		case 0:
			p.sb.WriteString("...@" + f)
		case 1:
			p.sb.WriteString(p.keyPath() + ": @" + f)
		default:
			p.sb.WriteString(p.keyPath() + ": @" + f + "." + p.name())
		}
		p.eol()
	case 11:
		p.sb.WriteString(p.keyPath() + ": " + p.kwv(r.Str("suspend", "unsuspend")))
		p.eol()
	}
}

// closeBrace ends a block: `}` optionally followed by a trailing line comment.
func (p *pg) closeBrace(d int) {
	p.ind(d)
	p.sb.WriteString("}")
	if p.r.P(p.o.Comments*0.4) || p.r.P(p.trailing) {
		p.sb.WriteString(" # " + strings.ReplaceAll(p.label(), "\n", " "))
	}
	p.sb.WriteString("\n")
}

func (p *pg) tail() string {
	s := p.sb.String()
	if i := strings.LastIndexByte(s, '\n'); i >= 0 {
		s = s[i+1:]
	}
	// only the part after the last statement separator on this line
	if i := strings.LastIndex(s, "; "); i >= 0 {
		s = s[i+2:]
	}
	// a ':' inside quotes does not count; approximate by stripping quoted parts
	out := []byte{}
	q := byte(0)
	for i := 0; i < len(s); i++ {
		c := s[i]
		if q != 0 {
			if c == '\\' && q == '"' {
				i++
			} else if c == q {
				q = 0
			}
			continue
		}
		if c == '"' || c == '\'' {
			q = c
			continue
		}
		out = append(out, c)
	}
	return string(out)
}

func (p *pg) kwv(v string) string {
	if p.r.P(p.o.KwCase) {
		return p.r.RandCase(v)
	}
	return v
}

func (p *pg) mapBody(d int, scope string) {
	p.sb.WriteString(" {\n")
	if p.r.P(p.o.Vars * 0.3) {
		p.varsBlock(d + 1)
	}
	n := p.r.Range(0, 4)
	for i := 0; i < n; i++ {
		if p.r.P(0.25) {
			p.attr(d + 1)
		} else {
			p.stmt(d+1, scope, true)
		}
	}
	p.closeBrace(d)
}

func (p *pg) attr(d int) {
	r := p.r
	p.ind(d)
	switch r.Intn(5) {
	case 0:
		p.sb.WriteString(p.kw("label") + ": " + p.value())
	case 1:
		p.sb.WriteString(p.kw("shape") + ": " + p.kwv(Pick(r, SimpleShapes)))
	case 2:
		p.sb.WriteString(p.kw("style") + "." + p.styleKV())
	case 3:
		if len(p.classes) > 0 {
			p.sb.WriteString(p.kw("class") + ": " + Pick(r, p.classes))
		} else {
			p.sb.WriteString(p.kw("tooltip") + ": " + p.value())
		}
	default:
		p.sb.WriteString(p.kw("style") + ": {" + p.styleKV() + "}")
	}
	p.sb.WriteString("\n")
}

func (p *pg) edgeBody(d int) {
	r := p.r
	p.sb.WriteString(" {\n")
	for i := 0; i < r.Range(0, 3); i++ {
		p.ind(d + 1)
		switch r.Intn(4) {
		case 0:
			p.sb.WriteString(p.kw("style") + "." + p.edgeStyleKV())
		case 1:
			p.sb.WriteString(p.kw(Pick(r, []string{"source-arrowhead", "target-arrowhead"})) + ": " + p.value() + " {" + p.kw("shape") + ": " + Pick(r, Arrowheads) + "}")
		case 2:
			p.sb.WriteString(p.kw("label") + ": " + p.value())
		default:
			p.sb.WriteString(p.kw(Pick(r, []string{"source-arrowhead", "target-arrowhead"})) + "." + p.kw("shape") + ": " + Pick(r, Arrowheads))
		}
		p.sb.WriteString("\n")
	}
	p.ind(d)
	p.sb.WriteString("}\n")
}

func (p *pg) styleKV() string {
	r := p.r
	switch r.Intn(14) {
	case 0:
		return p.kw("opacity") + ": " + Pick(r, []string{"0", "0.5", "1", "0.25"})
	case 1:
		return p.kw("fill") + ": " + Quote(Pick(r, Colors))
	case 2:
		return p.kw("stroke") + ": " + Quote(Pick(r, Colors))
	case 3:
		return p.kw("stroke-width") + ": " + fmt.Sprint(r.Range(0, 15))
	case 4:
		return p.kw("stroke-dash") + ": " + fmt.Sprint(r.Range(0, 10))
	case 5:
		return p.kw("border-radius") + ": " + fmt.Sprint(r.Range(0, 20))
	case 6:
		return p.kw("font-size") + ": " + fmt.Sprint(r.Range(8, 100))
	case 7:
		return p.kw("font-color") + ": " + Quote(Pick(r, Colors))
	case 8:
		return p.kw(Pick(r, []string{"bold", "italic", "underline"})) + ": " + p.kwv(r.Str("true", "false"))
	case 9:
		return p.kw("shadow") + ": " + p.kwv(r.Str("true", "false"))
	case 10:
		return p.kw("multiple") + ": " + p.kwv(r.Str("true", "false"))
	case 11:
		return p.kw("fill-pattern") + ": " + p.kwv(Pick(r, []string{"none", "dots", "lines", "grain", "paper"}))
	case 12:
		return p.kw("text-transform") + ": " + p.kwv(Pick(r, []string{"none", "uppercase", "lowercase", "capitalize"}))
	default:
		return p.kw("font") + ": " + p.kwv("mono")
	}
}

func (p *pg) edgeStyleKV() string {
	r := p.r
	switch r.Intn(7) {
	case 0:
		return p.kw("opacity") + ": " + Pick(r, []string{"0", "0.5", "1"})
	case 1:
		return p.kw("stroke") + ": " + Quote(Pick(r, Colors))
	case 2:
		return p.kw("stroke-width") + ": " + fmt.Sprint(r.Range(0, 15))
	case 3:
		return p.kw("stroke-dash") + ": " + fmt.Sprint(r.Range(0, 10))
	case 4:
		return p.kw("animated") + ": " + p.kwv(r.Str("true", "false"))
	case 5:
		return p.kw("font-size") + ": " + fmt.Sprint(r.Range(8, 100))
	default:
		return p.kw("bold") + ": " + p.kwv(r.Str("true", "false"))
	}
}

func (p *pg) globPattern() string {
	r := p.r
	n := Pick(r, p.names)
	rs := []rune(n)
	switch r.Intn(7) {
	case 0, 1:
		return "*"
	case 2:
		return "**"
	case 3:
		return "***"
	case 4:
		if IsPlain(n) {
			return string(rs[:1]) + "*"
		}
	case 5:
		if IsPlain(n) {
			return "*" + string(rs[len(rs)-1:])
		}
	}
	return "*"
}

func (p *pg) glob(d int) {
	r := p.r
	switch r.Intn(5) {
	case 0, 1:
		pat := p.globPattern()
		if r.P(0.3) {
			pat = p.name() + "." + pat
		}
		p.sb.WriteString(pat + "." + r.Str("style."+p.styleKV(), "shape: "+Pick(r, SimpleShapes), "label: "+p.value()))
		p.sb.WriteString("\n")
	case 2:
		p.sb.WriteString(p.globPattern() + ": {\n")
		if r.P(p.o.Filters) {
			p.ind(d + 1)
			p.sb.WriteString(r.Str("&", "!&") + r.Str("shape: "+Pick(r, SimpleShapes), "label: "+plainName(r), "style.fill: red", "leaf: true", "connected: true", "level: 1") + "\n")
		}
		p.ind(d + 1)
		p.sb.WriteString("style." + p.styleKV() + "\n")
		p.ind(d)
		p.sb.WriteString("}\n")
	case 3:
		a, b := "*", "*"
		if r.P(0.4) {
			a = p.name()
		} else if r.P(0.3) {
			b = p.name()
		}
		p.sb.WriteString(a + " " + Pick(r, Arrows) + " " + b)
		if r.P(0.5) {
			p.sb.WriteString(": " + p.value())
		}
		p.sb.WriteString("\n")
	default:
		p.sb.WriteString("(* " + Pick(r, Arrows) + " *)[*].style." + p.edgeStyleKV() + "\n")
	}
}

func (p *pg) varsBlock(d int) {
	r := p.r
	p.ind(d)
	p.sb.WriteString(p.kw("vars") + ": {\n")
	for i := 0; i < r.Range(1, 3); i++ {
		v := "v" + fmt.Sprint(len(p.vars))
		if len(p.vars) > 0 && r.P(0.3) {
			v = Pick(r, p.vars) // shadow
		} else {
			p.vars = append(p.vars, v)
		}
		p.ind(d + 1)
		p.sb.WriteString(v + ": " + r.Str("red", "12", "hello world", "\"q s\"", "'sq'", "true") + "\n")
	}
	if r.P(0.2) {
		p.ind(d + 1)
		p.sb.WriteString("m: {a: 1; b: 2}\n")
		p.vars = append(p.vars, "m.a")
	}
	p.ind(d)
	p.sb.WriteString("}\n")
}

func (p *pg) classesBlock(d int) {
	r := p.r
	p.ind(d)
	p.sb.WriteString(p.kw("classes") + ": {\n")
	for i := 0; i < r.Range(1, 3); i++ {
		c := "c" + fmt.Sprint(len(p.classes))
		p.classes = append(p.classes, c)
		p.ind(d + 1)
		p.sb.WriteString(c + ": {\n")
		for j := 0; j < r.Range(1, 2); j++ {
			p.ind(d + 2)
			p.sb.WriteString(r.Str("style."+p.styleKV(), "shape: "+Pick(r, SimpleShapes), "label: "+p.value()) + "\n")
		}
		p.ind(d + 1)
		p.sb.WriteString("}\n")
	}
	p.ind(d)
	p.sb.WriteString("}\n")
}

func (p *pg) configBlock() {
	r := p.r
	p.sb.WriteString("vars: {\n  d2-config: {\n")
	for i := 0; i < r.Range(1, 3); i++ {
		p.sb.WriteString("    " + r.Str("theme-id: 1", "theme-id: 300", "dark-theme-id: 200", "sketch: true", "pad: 10", "center: true", "layout-engine: dagre", "theme-overrides: {B1: \"#ff0000\"}", "dark-theme-overrides: {N7: blue}") + "\n")
	}
	p.sb.WriteString("  }\n}\n")
}

func (p *pg) boards(d int) {
	r := p.r
	kinds := []string{"layers", "scenarios", "steps"}
	for _, k := range kinds {
		if !r.P(0.5) {
			continue
		}
		p.ind(d)
		p.sb.WriteString(p.kw(k) + ": {\n")
		for i := 0; i < r.Range(1, 3); i++ {
			p.ind(d + 1)
			p.sb.WriteString(p.name() + ": {\n")
			savedEdges, savedRoot := p.edges, p.rootD
			if k == "layers" {
				p.edges = nil
			} else {
				p.edges = append([]string{}, p.edges...)
			}
			p.rootD = d + 2
			for j := 0; j < r.Range(0, 4); j++ {
				p.stmt(d+2, "", true)
			}
			p.edges, p.rootD = savedEdges, savedRoot
			if d < 1 && r.P(0.25) {
				p.boards(d + 2)
			}
			p.closeBrace(d + 1)
		}
		p.closeBrace(d)
	}
}
