// Reference glob matcher for C12 (independent of d2ir): `*` stands for any, possibly empty, run
// of characters; comparison is case-insensitive by Unicode simple case folding, rune by rune;
// the pattern is anchored at both ends. The reference *expansion* that uses it lives in
// verif/model/globexp (it needs the statement AST of verif/gen, which itself imports this
// package).
package model

import (
	"strings"
	"unicode"
)

// ---------------------------------------------------------------------------------------
// reference matcher

func globFoldEq(a, b rune) bool {
	if a == b {
		return true
	}
	for r := unicode.SimpleFold(a); r != a; r = unicode.SimpleFold(r) {
		if r == b {
			return true
		}
	}
	return false
}

func globHasPrefixFold(s, p []rune) bool {
	if len(p) > len(s) {
		return false
	}
	for i := range p {
		if !globFoldEq(s[i], p[i]) {
			return false
		}
	}
	return true
}

// GlobMatch: does name match pattern, where `*` stands for any (possibly empty) run of
// characters, case-insensitively (Unicode simple case folding, rune by rune), anchored at both
// ends.
func GlobMatch(pattern, name string) bool {
	p, s := []rune(pattern), []rune(name)
	// classic two-pointer wildcard matching with backtracking to the last star
	pi, si, star, mark := 0, 0, -1, 0
	for si < len(s) {
		switch {
		case pi < len(p) && p[pi] == '*':
			star, mark = pi, si
			pi++
		case pi < len(p) && globFoldEq(p[pi], s[si]):
			pi++
			si++
		case star >= 0:
			pi = star + 1
			mark++
			si = mark
		default:
			return false
		}
	}
	for pi < len(p) && p[pi] == '*' {
		pi++
	}
	return pi == len(p)
}

// GlobMatchLower is GlobMatch with characters compared by their lower-case mapping instead of
// simple case folding (σ ≠ ς, K ≠ K): classification only.
func GlobMatchLower(pattern, name string) bool {
	lower := func(s string) string {
		rs := []rune(s)
		for i, r := range rs {
			rs[i] = unicode.ToLower(r)
		}
		return string(rs)
	}
	p, s := []rune(lower(pattern)), []rune(lower(name))
	pi, si, star, mark := 0, 0, -1, 0
	for si < len(s) {
		switch {
		case pi < len(p) && p[pi] == '*':
			star, mark = pi, si
			pi++
		case pi < len(p) && p[pi] == s[si]:
			pi++
			si++
		case star >= 0:
			pi = star + 1
			mark++
			si = mark
		default:
			return false
		}
	}
	for pi < len(p) && p[pi] == '*' {
		pi++
	}
	return pi == len(p)
}

// GlobMatchUnanchored is the *defective* variant used only to classify a disagreement: the
// pattern's literal pieces are located leftmost-first and whatever follows the last piece is
// ignored (`*a` matches `ab`). It is never used to judge.
func GlobMatchUnanchored(pattern, name string) bool {
	s := []rune(name)
	parts := strings.Split(pattern, "*")
	for i, part := range parts {
		pr := []rune(part)
		if i == 0 {
			if !globHasPrefixFold(s, pr) {
				return false
			}
			s = s[len(pr):]
			continue
		}
		if len(pr) == 0 {
			continue
		}
		found := -1
		for j := 0; j+len(pr) <= len(s); j++ {
			if globHasPrefixFold(s[j:], pr) {
				found = j
				break
			}
		}
		if found < 0 {
			return false
		}
		s = s[found+len(pr):]
	}
	return true
}
