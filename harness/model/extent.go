// Package model holds reference models that are independent of the code under test.
//
// extent.go: an independent calculator of "everything a board draws" (C29). It has two
// sources, neither of which shares arithmetic with d2target.Diagram.BoundingBox or
// d2svg.dimensions:
//
//  1. ModelElements: from the plain numbers of the exported diagram (shape position, size,
//     stroke width, shadow/3d/multiple flags, route points) and the offsets d2 documents for
//     those decorations, the rectangles listed in the property statement: shape box ± stroke/2,
//     shadow-shifted box, 3d-shifted box, multiple-shifted box, route points ± stroke/2.
//  2. ParseSVG: from the rendered SVG document itself, the geometry that is actually drawn:
//     every rect/ellipse/circle/line/polygon/polyline/path/image/foreignObject/text of every
//     top-level group (paths are flattened by sampling their Bézier segments, an
//     UNDER-approximation of the true extent, so it can never cause a false alarm), the root
//     viewBox and the shadow filter's offset.
//
// The package imports nothing from d2.
package model

import (
	"encoding/base64"
	"encoding/xml"
	"fmt"
	"html"
	"io"
	"math"
	"regexp"
	"strconv"
	"strings"
	"unicode/utf8"
)

// Rect is an axis-parallel rectangle (X1<=X2, Y1<=Y2).
type Rect struct{ X1, Y1, X2, Y2 float64 }

func (r Rect) String() string {
	return fmt.Sprintf("[%.2f,%.2f – %.2f,%.2f]", r.X1, r.Y1, r.X2, r.Y2)
}

// Shift returns r translated by (dx,dy).
func (r Rect) Shift(dx, dy float64) Rect { return Rect{r.X1 + dx, r.Y1 + dy, r.X2 + dx, r.Y2 + dy} }

// Grow returns r inflated by d on every side.
func (r Rect) Grow(d float64) Rect { return Rect{r.X1 - d, r.Y1 - d, r.X2 + d, r.Y2 + d} }

// Excess returns by how much r sticks out of outer on each side (0 when inside) and the
// name of the worst side.
func (r Rect) Excess(outer Rect) (float64, string) {
	worst, side := 0.0, ""
	for _, c := range []struct {
		d float64
		s string
	}{{outer.X1 - r.X1, "left"}, {outer.Y1 - r.Y1, "top"}, {r.X2 - outer.X2, "right"}, {r.Y2 - outer.Y2, "bottom"}} {
		if c.d > worst {
			worst, side = c.d, c.s
		}
	}
	return worst, side
}

func (r Rect) finite() bool {
	for _, v := range []float64{r.X1, r.Y1, r.X2, r.Y2} {
		if math.IsNaN(v) || math.IsInf(v, 0) {
			return false
		}
	}
	return true
}

// Element is one drawn thing with its extent.
type Element struct {
	Owner string // shape / connection id
	Kind  string // stable class name used in violation signatures
	R     Rect
}

// ExtShape / ExtConn are the plain numbers of an exported board the model needs.
type ExtShape struct {
	ID, Type                   string
	X, Y, W, H, Stroke         float64
	Shadow, ThreeDee, Multiple bool
}

type ExtConn struct {
	ID     string
	Route  [][2]float64
	Stroke float64
}

// Offsets of the decorations as d2 documents / draws them (own copy on purpose: if the
// bounding box code and these drift apart the monitor must notice).
const (
	ext3DOffset       = 15.0 // style.3d: the back face is shifted right and up by 15 px
	ext3DOffsetHexY   = 7.0  // hexagons: up by 15/2 (integer division)
	extMultipleOffset = 10.0 // style.multiple: the copy is shifted right and up by 10 px
)

// ModelElements lists the statement's rectangles for the exported numbers. shadowDX/DY are
// the offsets of the drop shadow (taken by the caller from the rendered SVG's filter
// definition, feOffset dx/dy); the blur halo is deliberately not counted.
func ModelElements(shapes []ExtShape, conns []ExtConn, shadowDX, shadowDY float64) []Element {
	var out []Element
	for _, s := range shapes {
		box := Rect{s.X, s.Y, s.X + s.W, s.Y + s.H}.Grow(s.Stroke / 2)
		out = append(out, Element{s.ID, "shape-box", box})
		nofx := s.Type == "text" || s.Type == "code"
		if s.Shadow && !nofx && s.Type != "class" && s.Type != "sql_table" {
			out = append(out, Element{s.ID, "shadow", box.Shift(shadowDX, shadowDY)})
		}
		if s.ThreeDee && (s.Type == "rectangle" || s.Type == "hexagon") {
			dy := ext3DOffset
			if s.Type == "hexagon" {
				dy = ext3DOffsetHexY
			}
			out = append(out, Element{s.ID, "3d", box.Shift(ext3DOffset, -dy)})
		}
		if s.Multiple && !nofx {
			out = append(out, Element{s.ID, "multiple", box.Shift(extMultipleOffset, -extMultipleOffset)})
		}
	}
	for _, c := range conns {
		for _, p := range c.Route {
			out = append(out, Element{c.ID, "route-point", Rect{p[0], p[1], p[0], p[1]}.Grow(c.Stroke / 2)})
		}
	}
	return out
}

// ---------------------------------------------------------------------------------------
// SVG side

// SVGPrim is one drawn primitive of a group, in root user-space coordinates.
type SVGPrim struct {
	Elem     string  // rect, path, ellipse, circle, line, polygon, polyline, image, text, foreignObject
	Class    string  // class attribute of the element
	InShape  bool    // inside the group's <g class="shape…"> sub-group
	R        Rect    // geometric extent (no stroke); for text: the anchor point
	FontSize float64 // text only: font-size from the style attribute (0 = unknown)
	Text     string  // text only: character data (tspans joined by \n)
	Filter   string  // filter attribute (shadow)
}

// SVGGroup is a top-level <g class="<base64(id)> …"> of the diagram.
type SVGGroup struct {
	Class string // full class attribute
	ID    string // decoded id ("" when the first class token is not base64 of UTF-8 text)
	Prims []SVGPrim
}

// SVGDoc is what ParseSVG extracts.
type SVGDoc struct {
	ViewBox            Rect // viewBox of the diagram <svg> (the viewport in user space)
	HasViewBox         bool
	OuterW, OuterH     float64 // outer fit-to-screen wrapper's viewBox size (0 when absent)
	Background         *Rect   // the first root-level rect (background)
	ShadowDX, ShadowDY float64
	HasShadowFilter    bool
	Groups             []SVGGroup
	Untracked          int // elements skipped because of a transform the parser does not model
	Unparsed           int // numeric attributes that did not parse (e.g. em units)
}

var (
	reTranslate = regexp.MustCompile(`^\s*translate\(\s*(-?[0-9.eE+-]+)[\s,]+(-?[0-9.eE+-]+)\s*\)\s*$`)
	reTranslat1 = regexp.MustCompile(`^\s*translate\(\s*(-?[0-9.eE+-]+)\s*\)\s*$`)
	reFontSize  = regexp.MustCompile(`font-size:\s*([0-9.]+)px`)
)

var svgSkip = map[string]bool{"defs": true, "marker": true, "mask": true, "clipPath": true, "filter": true,
	"style": true, "pattern": true, "linearGradient": true, "radialGradient": true, "title": true, "script": true}

// DecodeGroupID decodes d2's group class (URL-safe base64 of the XML-escaped id).
func DecodeGroupID(class string) (string, bool) {
	tok := class
	if i := strings.IndexAny(class, " \t\n"); i >= 0 {
		tok = class[:i]
	}
	if tok == "" {
		return "", false
	}
	b, err := base64.URLEncoding.DecodeString(tok)
	if err != nil || !utf8.Valid(b) {
		return "", false
	}
	return html.UnescapeString(string(b)), true
}

type svgFrame struct {
	name     string
	dx, dy   float64
	tracked  bool
	group    int // index into doc.Groups, -1 none
	inShape  bool
	textPrim int // index of text prim being collected (-1 none)
}

// ParseSVG extracts the drawn geometry of one rendered board.
func ParseSVG(svg []byte) (*SVGDoc, error) {
	doc := &SVGDoc{}
	dec := xml.NewDecoder(strings.NewReader(string(svg)))
	dec.Strict = false
	dec.Entity = xml.HTMLEntity
	var st []svgFrame
	svgDepth := 0
	attr := func(se xml.StartElement, n string) (string, bool) {
		for _, a := range se.Attr {
			if a.Name.Local == n && (a.Name.Space == "" || a.Name.Space == "http://www.w3.org/2000/svg") {
				return a.Value, true
			}
		}
		return "", false
	}
	num := func(se xml.StartElement, n string) (float64, bool) {
		v, ok := attr(se, n)
		if !ok {
			return 0, true // SVG default 0
		}
		f, err := strconv.ParseFloat(strings.TrimSuffix(strings.TrimSpace(v), "px"), 64)
		if err != nil {
			doc.Unparsed++
			return 0, false
		}
		return f, true
	}
	for {
		tok, err := dec.Token()
		if err == io.EOF {
			break
		}
		if err != nil {
			return doc, fmt.Errorf("svg parse: %w", err)
		}
		switch t := tok.(type) {
		case xml.StartElement:
			name := t.Name.Local
			if svgSkip[name] {
				// nothing inside is drawn directly; only the shadow filter's offset is read
				inShadow := false
				if id, _ := attr(t, "id"); name == "filter" && id == "shadow-filter" {
					inShadow, doc.HasShadowFilter = true, true
				}
				shadowDepth := 0
				depth := 1
				for depth > 0 {
					tk, err := dec.Token()
					if err != nil {
						return doc, fmt.Errorf("svg parse: %w", err)
					}
					switch x := tk.(type) {
					case xml.StartElement:
						depth++
						if id, _ := attr(x, "id"); x.Name.Local == "filter" && id == "shadow-filter" && !inShadow {
							inShadow, doc.HasShadowFilter, shadowDepth = true, true, depth
						}
						if inShadow && x.Name.Local == "feOffset" {
							doc.ShadowDX, _ = num(x, "dx")
							doc.ShadowDY, _ = num(x, "dy")
						}
					case xml.EndElement:
						if inShadow && shadowDepth == depth {
							inShadow = false
						}
						depth--
					}
				}
				continue
			}
			parent := svgFrame{tracked: true, group: -1, textPrim: -1}
			if len(st) > 0 {
				parent = st[len(st)-1]
			}
			fr := svgFrame{name: name, dx: parent.dx, dy: parent.dy, tracked: parent.tracked, group: parent.group, inShape: parent.inShape, textPrim: -1}
			if tr, ok := attr(t, "transform"); ok && strings.TrimSpace(tr) != "" {
				if m := reTranslate.FindStringSubmatch(tr); m != nil {
					x, _ := strconv.ParseFloat(m[1], 64)
					y, _ := strconv.ParseFloat(m[2], 64)
					fr.dx += x
					fr.dy += y
				} else if m := reTranslat1.FindStringSubmatch(tr); m != nil {
					x, _ := strconv.ParseFloat(m[1], 64)
					fr.dx += x
				} else {
					fr.tracked = false
				}
			}
			cls, _ := attr(t, "class")
			switch name {
			case "svg":
				svgDepth++
				if vb, ok := attr(t, "viewBox"); ok {
					f := strings.Fields(strings.ReplaceAll(vb, ",", " "))
					if len(f) == 4 {
						var v [4]float64
						good := true
						for i := range f {
							x, err := strconv.ParseFloat(f[i], 64)
							if err != nil {
								good = false
							}
							v[i] = x
						}
						if good {
							if strings.Contains(cls, "d2-svg") || svgDepth == 2 {
								doc.ViewBox = Rect{v[0], v[1], v[0] + v[2], v[1] + v[3]}
								doc.HasViewBox = true
							} else if svgDepth == 1 {
								doc.OuterW, doc.OuterH = v[2], v[3]
								if !doc.HasViewBox {
									doc.ViewBox = Rect{v[0], v[1], v[0] + v[2], v[1] + v[3]}
								}
							}
						}
					}
				}
				if svgDepth > 2 {
					// nested svg documents (latex output): own coordinate system
					fr.tracked = false
				}
			case "g":
				if fr.group < 0 {
					if id, ok := DecodeGroupID(cls); ok {
						doc.Groups = append(doc.Groups, SVGGroup{Class: cls, ID: id})
						fr.group = len(doc.Groups) - 1
					} else if cls != "" {
						doc.Groups = append(doc.Groups, SVGGroup{Class: cls})
						fr.group = len(doc.Groups) - 1
					}
				} else if strings.HasPrefix(strings.TrimSpace(cls), "shape") {
					fr.inShape = true
				}
			default:
				if !fr.tracked {
					doc.Untracked++
					break
				}
				var r Rect
				ok := false
				p := SVGPrim{Elem: name, Class: cls, InShape: fr.inShape}
				p.Filter, _ = attr(t, "filter")
				switch name {
				case "rect", "image", "foreignObject":
					x, o1 := num(t, "x")
					y, o2 := num(t, "y")
					w, o3 := num(t, "width")
					h, o4 := num(t, "height")
					if o1 && o2 && o3 && o4 {
						r, ok = Rect{x, y, x + w, y + h}, true
					}
				case "ellipse":
					cx, o1 := num(t, "cx")
					cy, o2 := num(t, "cy")
					rx, o3 := num(t, "rx")
					ry, o4 := num(t, "ry")
					if o1 && o2 && o3 && o4 {
						r, ok = Rect{cx - rx, cy - ry, cx + rx, cy + ry}, true
					}
				case "circle":
					cx, o1 := num(t, "cx")
					cy, o2 := num(t, "cy")
					rr, o3 := num(t, "r")
					if o1 && o2 && o3 {
						r, ok = Rect{cx - rr, cy - rr, cx + rr, cy + rr}, true
					}
				case "line":
					x1, o1 := num(t, "x1")
					y1, o2 := num(t, "y1")
					x2, o3 := num(t, "x2")
					y2, o4 := num(t, "y2")
					if o1 && o2 && o3 && o4 {
						r, ok = Rect{math.Min(x1, x2), math.Min(y1, y2), math.Max(x1, x2), math.Max(y1, y2)}, true
					}
				case "polygon", "polyline":
					pts, _ := attr(t, "points")
					r, ok = pointsExtent(pts)
				case "path":
					d, _ := attr(t, "d")
					r, ok = PathExtent(d)
				case "text":
					x, o1 := num(t, "x")
					y, o2 := num(t, "y")
					if o1 && o2 {
						r, ok = Rect{x, y, x, y}, true
						if sty, has := attr(t, "style"); has {
							if m := reFontSize.FindStringSubmatch(sty); m != nil {
								p.FontSize, _ = strconv.ParseFloat(m[1], 64)
							}
						}
					}
				}
				if ok && r.finite() && fr.group >= 0 {
					p.R = r.Shift(fr.dx, fr.dy)
					g := &doc.Groups[fr.group]
					g.Prims = append(g.Prims, p)
					if name == "text" {
						fr.textPrim = len(g.Prims) - 1
					}
				} else if ok && fr.group < 0 && name == "rect" && doc.Background == nil && svgDepth >= 1 {
					rr := r.Shift(fr.dx, fr.dy)
					doc.Background = &rr
				}
				if name == "foreignObject" {
					if err := dec.Skip(); err != nil {
						return doc, fmt.Errorf("svg parse: %w", err)
					}
					continue
				}
			}
			if name == "tspan" && parent.textPrim >= 0 {
				fr.textPrim = parent.textPrim
				g := &doc.Groups[fr.group]
				if g.Prims[fr.textPrim].Text != "" {
					g.Prims[fr.textPrim].Text += "\n"
				}
			}
			st = append(st, fr)
		case xml.EndElement:
			if t.Name.Local == "svg" {
				svgDepth--
			}
			if len(st) > 0 {
				st = st[:len(st)-1]
			}
		case xml.CharData:
			if len(st) > 0 {
				fr := st[len(st)-1]
				if fr.textPrim >= 0 && fr.group >= 0 {
					doc.Groups[fr.group].Prims[fr.textPrim].Text += string(t)
				}
			}
		}
	}
	return doc, nil
}

func pointsExtent(s string) (Rect, bool) {
	f := strings.FieldsFunc(s, func(c rune) bool { return c == ' ' || c == ',' || c == '\n' || c == '\t' })
	if len(f) < 2 || len(f)%2 != 0 {
		return Rect{}, false
	}
	r := Rect{math.Inf(1), math.Inf(1), math.Inf(-1), math.Inf(-1)}
	for i := 0; i+1 < len(f); i += 2 {
		x, e1 := strconv.ParseFloat(f[i], 64)
		y, e2 := strconv.ParseFloat(f[i+1], 64)
		if e1 != nil || e2 != nil {
			return Rect{}, false
		}
		r = addPt(r, x, y)
	}
	return r, true
}

func addPt(r Rect, x, y float64) Rect {
	return Rect{math.Min(r.X1, x), math.Min(r.Y1, y), math.Max(r.X2, x), math.Max(r.Y2, y)}
}

// PathExtent returns the extent of the points ON an SVG path: line vertices exactly, Bézier
// segments sampled at 16 parameter values (under-approximation), arcs by their end points
// only (under-approximation). ok=false when the path data does not parse.
func PathExtent(d string) (Rect, bool) {
	toks, ok := pathTokens(d)
	if !ok || len(toks) == 0 {
		return Rect{}, false
	}
	r := Rect{math.Inf(1), math.Inf(1), math.Inf(-1), math.Inf(-1)}
	var cx, cy, sx, sy float64 // current point, subpath start
	var pcx, pcy float64       // previous control point (for S/T)
	prev := byte(0)
	i := 0
	next := func() (float64, bool) {
		if i < len(toks) && !toks[i].isCmd {
			v := toks[i].v
			i++
			return v, true
		}
		return 0, false
	}
	var cmd byte
	n := 0
	for i < len(toks) {
		if toks[i].isCmd {
			cmd = toks[i].c
			i++
		} else if cmd == 0 {
			return Rect{}, false
		} else if cmd == 'M' {
			cmd = 'L'
		} else if cmd == 'm' {
			cmd = 'l'
		}
		rel := cmd >= 'a' && cmd <= 'z'
		up := cmd &^ 0x20
		rd := func(k int) ([]float64, bool) {
			out := make([]float64, k)
			for j := 0; j < k; j++ {
				v, ok := next()
				if !ok {
					return nil, false
				}
				out[j] = v
			}
			return out, true
		}
		switch up {
		case 'Z':
			cx, cy = sx, sy
		case 'M', 'L', 'T':
			a, ok := rd(2)
			if !ok {
				return Rect{}, false
			}
			x, y := a[0], a[1]
			if rel {
				x, y = cx+x, cy+y
			}
			if up == 'T' {
				// smooth quadratic: reflect previous control point
				qx, qy := cx, cy
				if prev == 'Q' || prev == 'T' {
					qx, qy = 2*cx-pcx, 2*cy-pcy
				}
				for k := 1; k <= 16; k++ {
					t := float64(k) / 16
					r = addPt(r, quad(cx, qx, x, t), quad(cy, qy, y, t))
				}
				pcx, pcy = qx, qy
			}
			cx, cy = x, y
			if up == 'M' {
				sx, sy = x, y
			}
			r = addPt(r, cx, cy)
		case 'H':
			a, ok := rd(1)
			if !ok {
				return Rect{}, false
			}
			if rel {
				cx += a[0]
			} else {
				cx = a[0]
			}
			r = addPt(r, cx, cy)
		case 'V':
			a, ok := rd(1)
			if !ok {
				return Rect{}, false
			}
			if rel {
				cy += a[0]
			} else {
				cy = a[0]
			}
			r = addPt(r, cx, cy)
		case 'C', 'S':
			k := 6
			if up == 'S' {
				k = 4
			}
			a, ok := rd(k)
			if !ok {
				return Rect{}, false
			}
			if rel {
				for j := 0; j < k; j += 2 {
					a[j] += cx
					a[j+1] += cy
				}
			}
			var x1, y1, x2, y2, x, y float64
			if up == 'C' {
				x1, y1, x2, y2, x, y = a[0], a[1], a[2], a[3], a[4], a[5]
			} else {
				x1, y1 = cx, cy
				if prev == 'C' || prev == 'S' {
					x1, y1 = 2*cx-pcx, 2*cy-pcy
				}
				x2, y2, x, y = a[0], a[1], a[2], a[3]
			}
			r = addPt(r, cx, cy)
			for s := 1; s <= 16; s++ {
				t := float64(s) / 16
				r = addPt(r, cubic(cx, x1, x2, x, t), cubic(cy, y1, y2, y, t))
			}
			pcx, pcy = x2, y2
			cx, cy = x, y
		case 'Q':
			a, ok := rd(4)
			if !ok {
				return Rect{}, false
			}
			if rel {
				a[0] += cx
				a[1] += cy
				a[2] += cx
				a[3] += cy
			}
			r = addPt(r, cx, cy)
			for s := 1; s <= 16; s++ {
				t := float64(s) / 16
				r = addPt(r, quad(cx, a[0], a[2], t), quad(cy, a[1], a[3], t))
			}
			pcx, pcy = a[0], a[1]
			cx, cy = a[2], a[3]
		case 'A':
			a, ok := rd(7)
			if !ok {
				return Rect{}, false
			}
			x, y := a[5], a[6]
			if rel {
				x, y = cx+x, cy+y
			}
			r = addPt(r, cx, cy)
			cx, cy = x, y
			r = addPt(r, cx, cy)
		default:
			return Rect{}, false
		}
		prev = up
		n++
	}
	if n == 0 || !r.finite() {
		return Rect{}, false
	}
	return r, true
}

func cubic(p0, p1, p2, p3, t float64) float64 {
	u := 1 - t
	return u*u*u*p0 + 3*u*u*t*p1 + 3*u*t*t*p2 + t*t*t*p3
}

func quad(p0, p1, p2, t float64) float64 {
	u := 1 - t
	return u*u*p0 + 2*u*t*p1 + t*t*p2
}

type pathTok struct {
	isCmd bool
	c     byte
	v     float64
}

func pathTokens(d string) ([]pathTok, bool) {
	var out []pathTok
	i := 0
	for i < len(d) {
		c := d[i]
		switch {
		case c == ' ' || c == ',' || c == '\n' || c == '\t' || c == '\r':
			i++
		case strings.IndexByte("MmLlHhVvCcSsQqTtAaZz", c) >= 0:
			out = append(out, pathTok{isCmd: true, c: c})
			i++
		case c == '-' || c == '+' || c == '.' || (c >= '0' && c <= '9'):
			j := i + 1
			seenDot := c == '.'
			seenE := false
			for j < len(d) {
				ch := d[j]
				if ch >= '0' && ch <= '9' {
					j++
				} else if ch == '.' && !seenDot && !seenE {
					seenDot = true
					j++
				} else if (ch == 'e' || ch == 'E') && !seenE {
					seenE = true
					j++
					if j < len(d) && (d[j] == '-' || d[j] == '+') {
						j++
					}
				} else {
					break
				}
			}
			v, err := strconv.ParseFloat(d[i:j], 64)
			if err != nil {
				return nil, false
			}
			out = append(out, pathTok{v: v})
			i = j
		default:
			// NaN, Inf or garbage
			return nil, false
		}
	}
	return out, true
}
