// Package globexp is the reference glob expansion for C12.
//
// Written from the property statement, independent of d2ir: it interprets a program of the
// small structured fragment (gen.LStmt), keeps its own model of which objects and connections
// exist at every point of the source, and emits a *glob-free* twin program in which every glob
// declaration is replaced by explicit declarations on the targets chosen by the reference
// matcher (model.GlobMatch):
//   - on targets that exist at the glob's position: at that position;
//   - on targets created later (by a statement lexically inside the glob's block): immediately
//     after a bare creation statement and before the creating statement's own assignment;
//   - when several globs apply to one new target they apply in declaration order (values
//     follow source order); a connection created by a glob receives that glob's own body in
//     the glob's place of that order.
//
// The twin is flat: one list of absolute-path statements per board (explicit-declaration
// semantics make `x: {y: l}` and `x; x.y: l` equivalent), boards stay nested.
package globexp

import (
	"sort"
	"strconv"
	"strings"
	"unicode/utf8"

	"verif/gen"
	"verif/model"
)

// ---------------------------------------------------------------------------------------
// model of the program state

// Reserved attribute heads of the fragment (a key segment from this set starts the attribute
// tail of a key path; generated object names never collide with it).
var globAttrHeads = map[string]bool{
	"shape": true, "label": true, "style": true, "tooltip": true, "source-arrowhead": true, "target-arrowhead": true,
	"width": true, "height": true, "direction": true, "link": true, "icon": true, "near": true, "class": true,
}

type gObj struct {
	name   string
	parent *gObj
	kids   []*gObj
	board  *gBoard
	attrs  map[string]string
}

type gEdge struct {
	cont               *gObj
	src, dst           *gObj
	srcArrow, dstArrow bool
	arrow              string
	index              int
	dead               bool
}

type gBoard struct {
	root   *gObj
	name   string
	parent *gBoard
	layers []*gBoard
	out    []*gen.LStmt
	edges  []*gEdge
}

const (
	gkField = iota
	gkEdgeCreate
	gkEdgeRef
)

type gGlob struct {
	stmt     *gen.LStmt
	kind     int
	scope    *gObj
	board    *gBoard
	triple   bool
	filtered bool
	seq      int
	// field glob
	objSegs []string // leading segments (literals and patterns)
	tail    []string // attribute tail (may be empty with a body)
	// edge globs
	prefix           []string // literal container prefix (edge refs)
	srcSegs, dstSegs []string
	idx              string

	appliedObj  map[*gObj]bool
	appliedEdge map[*gEdge]bool
	appliedPair map[[2]*gObj]bool
	closed      bool
}

// GlobInfo is what the expansion observed (evidence counters and judgeability).
type GlobInfo struct {
	Globs, EagerTargets, LazyTargets, EdgesByGlob, EdgeRefApplied int
	Feat                                                          map[string]int
	// Unjudged lists reasons why the program is outside the judged fragment.
	Unjudged map[string]int
	Objects  int
	Edges    int
}

type Expander struct {
	// Match is the name matcher (GlobMatch unless a classification run replaces it).
	Match func(pattern, name string) bool

	info   GlobInfo
	active []*gGlob
	closed []*gGlob
	seq    int
	root   *gBoard
	lazy   bool
	// during one creation event: which glob set which attribute of which target
	fireSet map[string]*gGlob
	cur     *gGlob
	deleted map[string]bool
}

func isPattern(seg string) bool { return strings.Contains(seg, "*") }

func (x *Expander) unjudged(why string) { x.info.Unjudged[why]++ }
func (x *Expander) feat(k string)       { x.info.Feat[k]++ }

func absPath(o *gObj) []string {
	var p []string
	for q := o; q != nil && q.parent != nil; q = q.parent {
		p = append(p, q.name)
	}
	for i, j := 0, len(p)-1; i < j; i, j = i+1, j-1 {
		p[i], p[j] = p[j], p[i]
	}
	return p
}

func nameEq(a, b string) bool { return strings.EqualFold(a, b) }

func (o *gObj) child(name string) *gObj {
	for _, k := range o.kids {
		if nameEq(k.name, name) {
			return k
		}
	}
	return nil
}

func (b *gBoard) emit(s *gen.LStmt) { b.out = append(b.out, s) }

func join(a []string, b ...string) []string {
	out := make([]string, 0, len(a)+len(b))
	out = append(out, a...)
	return append(out, b...)
}

// ensure resolves a literal path below from, creating what is missing; every created object
// is announced by a bare statement and offered to the active globs.
func (x *Expander) ensure(from *gObj, path []string) *gObj {
	o := from
	for _, seg := range path {
		k := o.child(seg)
		if k == nil {
			k = &gObj{name: seg, parent: o, board: o.board, attrs: map[string]string{}}
			o.kids = append(o.kids, k)
			x.info.Objects++
			if x.deleted[strings.ToLower(strings.Join(absPath(k), "\x1f"))] && len(x.active) > 0 {
				x.feat("deleted_object_recreated_while_glob_active")
			}
			o.board.emit(&gen.LStmt{Key: absPath(k)})
			x.fire()
		}
		o = k
	}
	return o
}

func (x *Expander) find(from *gObj, path []string) *gObj {
	o := from
	for _, seg := range path {
		o = o.child(seg)
		if o == nil {
			return nil
		}
	}
	return o
}

func descendants(o *gObj, acc *[]*gObj) {
	for _, k := range o.kids {
		*acc = append(*acc, k)
		descendants(k, acc)
	}
}

func boardObjects(b *gBoard, acc *[]*gObj) {
	descendants(b.root, acc)
	for _, l := range b.layers {
		boardObjects(l, acc)
	}
}

// matchPath enumerates the objects below from selected by segs (literals, `*`-patterns, `**`).
func (x *Expander) matchPath(from *gObj, segs []string) []*gObj {
	cur := []*gObj{from}
	for _, seg := range segs {
		var next []*gObj
		for _, o := range cur {
			switch {
			case seg == "**":
				descendants(o, &next)
			case seg == "***":
				boardObjects(o.board, &next)
			case isPattern(seg):
				for _, k := range o.kids {
					if x.Match(seg, k.name) {
						next = append(next, k)
					}
				}
			default:
				if k := o.child(seg); k != nil {
					next = append(next, k)
				}
			}
		}
		cur = next
	}
	return cur
}

// ---------------------------------------------------------------------------------------
// values, assignments

func setAttr(o *gObj, tail []string, v *gen.LVal) {
	if v == nil {
		return
	}
	val := ""
	for _, p := range v.Parts {
		val += p.Lit
	}
	key := strings.Join(tail, ".")
	if len(tail) == 0 {
		key = "label.primary"
	}
	if v.Null {
		delete(o.attrs, key)
		return
	}
	o.attrs[key] = val
}

// assignObj emits `abs(o).tail: v` (or `abs(o): v` for the primary) and the body's attributes.
func (x *Expander) noteLazy(target string, tail []string) {
	if x.fireSet == nil || x.cur == nil {
		return
	}
	k := target + "\x1e" + strings.Join(tail, ".")
	if g, ok := x.fireSet[k]; ok && g != x.cur {
		x.feat("new_target_attribute_set_by_two_globs")
		bodyForm := func(g *gGlob) bool { return len(g.stmt.Body) > 1 }
		if bodyForm(g) {
			x.feat("new_target_attribute_set_by_two_globs_earlier_has_multi_field_body")
		}
	}
	x.fireSet[k] = x.cur
}

func (x *Expander) assignObj(o *gObj, tail []string, v *gen.LVal, body []*gen.LStmt) {
	if v != nil {
		x.noteLazy("o:"+strings.Join(absPath(o), "."), tail)
		o.board.emit(&gen.LStmt{Key: join(absPath(o), tail...), Val: v.Clone()})
		setAttr(o, tail, v)
	}
	for _, b := range body {
		if b.Raw != "" || b.IsEdge() {
			continue
		}
		x.noteLazy("o:"+strings.Join(absPath(o), "."), join(tail, b.Key...))
		o.board.emit(&gen.LStmt{Key: join(absPath(o), join(tail, b.Key...)...), Val: b.Val.Clone()})
		setAttr(o, join(tail, b.Key...), b.Val)
	}
}

func edgeStmt(e *gEdge, withIdx bool) *gen.LStmt {
	s := &gen.LStmt{Src: absPath(e.src), Dst: absPath(e.dst), Arrow: e.arrow}
	if withIdx {
		s.Idx = strconv.Itoa(e.index)
	}
	return s
}

func (x *Expander) assignEdge(e *gEdge, tail []string, v *gen.LVal, body []*gen.LStmt) {
	b := e.cont.board
	ek := "e:" + strings.Join(absPath(e.src), ".") + e.arrow + strings.Join(absPath(e.dst), ".") + strconv.Itoa(e.index)
	if v != nil {
		x.noteLazy(ek, tail)
		s := edgeStmt(e, true)
		s.EKey = append([]string(nil), tail...)
		s.Val = v.Clone()
		b.emit(s)
	}
	for _, bs := range body {
		if bs.Raw != "" || bs.IsEdge() {
			continue
		}
		x.noteLazy(ek, join(tail, bs.Key...))
		s := edgeStmt(e, true)
		s.EKey = join(tail, bs.Key...)
		s.Val = bs.Val.Clone()
		b.emit(s)
	}
}

// ---------------------------------------------------------------------------------------
// filters

func filterOK(o *gObj, body []*gen.LStmt, match func(string, string) bool) bool {
	for _, b := range body {
		if b.Tag != "filter" {
			continue
		}
		raw := b.Raw
		neg := strings.HasPrefix(raw, "!")
		raw = strings.TrimPrefix(strings.TrimPrefix(raw, "!"), "&")
		i := strings.Index(raw, ": ")
		if i < 0 {
			continue
		}
		key, want := raw[:i], raw[i+2:]
		have, ok := o.attrs[key]
		switch key {
		case "label":
			if !ok {
				have, ok = o.attrs["label.primary"]
			}
			if !ok {
				have, ok = o.name, true
			}
		case "shape":
			if !ok {
				have, ok = "rectangle", true
			}
		}
		res := false
		if ok {
			if isPattern(want) {
				res = match(want, have)
			} else {
				res = want == have
			}
		}
		if neg {
			res = !res
		}
		if !res {
			return false
		}
	}
	return true
}

// ---------------------------------------------------------------------------------------
// glob application

func parseArrow(a string) (src, dst bool) {
	if a == "" {
		a = "->"
	}
	return strings.HasPrefix(a, "<"), strings.HasSuffix(a, ">")
}

// container of a connection between two objects declared relative to scope: the deepest
// common ancestor prefix while both relative paths keep more than one segment.
func edgeContainer(scope, src, dst *gObj) *gObj {
	rel := func(o *gObj) []*gObj {
		var p []*gObj
		for q := o; q != nil && q != scope; q = q.parent {
			p = append([]*gObj{q}, p...)
		}
		return p
	}
	sp, dp := rel(src), rel(dst)
	c := scope
	for len(sp) > 1 && len(dp) > 1 && sp[0] == dp[0] {
		c = sp[0]
		sp, dp = sp[1:], dp[1:]
	}
	return c
}

func (x *Expander) countEdges(cont, src, dst *gObj, sa, da bool) int {
	n := 0
	for _, e := range cont.board.edges {
		if !e.dead && e.cont == cont && e.src == src && e.dst == dst && e.srcArrow == sa && e.dstArrow == da {
			n++
		}
	}
	return n
}

// newEdge creates the connection, announces it with a bare statement and lets the active globs
// act on it in declaration order; own (may be nil) is called in the place of creator.
func (x *Expander) newEdge(scope, src, dst *gObj, arrow string, creator *gGlob, own func(e *gEdge)) *gEdge {
	sa, da := parseArrow(arrow)
	cont := edgeContainer(scope, src, dst)
	e := &gEdge{cont: cont, src: src, dst: dst, srcArrow: sa, dstArrow: da, arrow: arrow, index: x.countEdges(cont, src, dst, sa, da)}
	if e.arrow == "" {
		e.arrow = "->"
	}
	cont.board.edges = append(cont.board.edges, e)
	x.info.Edges++
	cont.board.emit(edgeStmt(e, false))
	oldLazy := x.lazy
	if creator == nil {
		x.lazy = true
	}
	ownSet := x.fireSet == nil
	if ownSet {
		x.fireSet = map[string]*gGlob{}
	}
	defer func() {
		x.lazy = oldLazy
		if ownSet {
			x.fireSet = nil
		}
	}()
	done := false
	for _, g := range x.active {
		if g == creator {
			if own != nil {
				own(e)
			}
			done = true
			continue
		}
		if g.kind == gkEdgeRef {
			x.applyEdgeRef(g, e)
		}
	}
	if !done && own != nil {
		own(e)
	}
	x.checkClosed()
	return e
}

func (x *Expander) edgeRefMatches(g *gGlob, e *gEdge) bool {
	if e.dead || e.cont.board != g.board {
		return false
	}
	cont := x.find(g.scope, g.prefix)
	if cont == nil || e.cont != cont {
		return false
	}
	sa, da := parseArrow(g.stmt.Arrow)
	if sa != e.srcArrow || da != e.dstArrow {
		return false
	}
	if e.src.parent != cont || e.dst.parent != cont {
		return false
	}
	one := func(seg, name string) bool {
		if isPattern(seg) {
			return x.Match(seg, name)
		}
		return nameEq(seg, name)
	}
	if !one(g.srcSegs[0], e.src.name) || !one(g.dstSegs[0], e.dst.name) {
		return false
	}
	if g.idx != "*" && g.idx != strconv.Itoa(e.index) {
		return false
	}
	return true
}

func (x *Expander) applyEdgeRef(g *gGlob, e *gEdge) {
	if g.appliedEdge[e] || !x.edgeRefMatches(g, e) {
		return
	}
	g.appliedEdge[e] = true
	saved := x.cur
	x.cur = g
	defer func() { x.cur = saved }()
	x.info.EdgeRefApplied++
	if x.lazy {
		x.feat("lazy_edge_ref_application")
	}
	x.assignEdge(e, g.stmt.EKey, g.stmt.Val, g.stmt.Body)
}

// apply (re-)evaluates glob g over its whole scope and acts on every target it has not acted
// on yet.
func (x *Expander) apply(g *gGlob) {
	saved := x.cur
	x.cur = g
	defer func() { x.cur = saved }()
	switch g.kind {
	case gkField:
		for _, o := range x.matchPath(g.scope, g.objSegs) {
			if g.appliedObj[o] {
				continue
			}
			if g.filtered && !filterOK(o, g.stmt.Body, x.Match) {
				continue
			}
			g.appliedObj[o] = true
			if x.lazy {
				x.info.LazyTargets++
			} else {
				x.info.EagerTargets++
			}
			x.assignObj(o, g.tail, g.stmt.Val, g.stmt.Body)
		}
	case gkEdgeCreate:
		srcs := x.matchPath(g.scope, g.srcSegs)
		dsts := x.matchPath(g.scope, g.dstSegs)
		for _, s := range srcs {
			for _, d := range dsts {
				if s == d {
					continue // globs never connect an object to itself
				}
				key := [2]*gObj{s, d}
				if g.appliedPair[key] {
					continue
				}
				g.appliedPair[key] = true
				x.info.EdgesByGlob++
				if x.lazy {
					x.feat("lazy_edge_creation")
				}
				x.newEdge(g.scope, s, d, g.stmt.Arrow, g, func(e *gEdge) {
					if g.stmt.Val != nil || len(g.stmt.Body) > 0 {
						x.assignEdge(e, nil, g.stmt.Val, g.stmt.Body)
					}
				})
			}
		}
	case gkEdgeRef:
		for _, e := range g.board.edges {
			x.applyEdgeRef(g, e)
		}
	}
}

// fire offers the current state to every active glob in declaration order (a creation event).
func (x *Expander) fire() {
	old := x.lazy
	x.lazy = true
	if x.fireSet == nil {
		x.fireSet = map[string]*gGlob{}
		defer func() { x.fireSet = nil }()
	}
	for _, g := range x.active {
		if g.filtered {
			continue // program is unjudged already (see block)
		}
		x.apply(g)
	}
	x.lazy = old
	x.checkClosed()
}

// checkClosed notices targets that a glob of an already closed block would have matched
// (re-opened scope): generated and counted, not judged (DESIGN §4 C12 (i)).
func (x *Expander) checkClosed() {
	for _, g := range x.closed {
		switch g.kind {
		case gkField:
			for _, o := range x.matchPath(g.scope, g.objSegs) {
				if !g.appliedObj[o] {
					g.appliedObj[o] = true
					x.unjudged("target_created_after_glob_block_closed")
				}
			}
		case gkEdgeCreate:
			srcs := x.matchPath(g.scope, g.srcSegs)
			dsts := x.matchPath(g.scope, g.dstSegs)
			for _, s := range srcs {
				for _, d := range dsts {
					key := [2]*gObj{s, d}
					if s != d && !g.appliedPair[key] {
						g.appliedPair[key] = true
						x.unjudged("target_created_after_glob_block_closed")
					}
				}
			}
		case gkEdgeRef:
			for _, e := range g.board.edges {
				if !g.appliedEdge[e] && x.edgeRefMatches(g, e) {
					g.appliedEdge[e] = true
					x.unjudged("target_created_after_glob_block_closed")
				}
			}
		}
	}
}

// ---------------------------------------------------------------------------------------
// interpretation of statements

func splitKey(key []string) (obj, tail []string) {
	for i, k := range key {
		if globAttrHeads[strings.ToLower(k)] {
			return key[:i], key[i:]
		}
	}
	return key, nil
}

func stmtHasGlob(s *gen.LStmt) bool {
	if s.Idx == "*" {
		return true
	}
	for _, l := range [][]string{s.Key, s.Src, s.Dst} {
		for _, k := range l {
			if isPattern(k) {
				return true
			}
		}
	}
	return false
}

func patternClass(seg string) string {
	switch {
	case seg == "*":
		return "star"
	case seg == "**":
		return "double"
	case seg == "***":
		return "triple"
	case strings.HasPrefix(seg, "*") && strings.HasSuffix(seg, "*"):
		return "infix-literal"
	case strings.HasPrefix(seg, "*"):
		return "suffix"
	case strings.HasSuffix(seg, "*"):
		return "prefix"
	}
	return "affix-both"
}

func nonASCII(s string) bool {
	for i := 0; i < len(s); i++ {
		if s[i] >= utf8.RuneSelf {
			return true
		}
	}
	return false
}

func (x *Expander) declareGlob(s *gen.LStmt, cur *gObj) {
	x.seq++
	g := &gGlob{stmt: s, scope: cur, board: cur.board, seq: x.seq,
		appliedObj: map[*gObj]bool{}, appliedEdge: map[*gEdge]bool{}, appliedPair: map[[2]*gObj]bool{}}
	x.info.Globs++
	for _, o := range x.active {
		if o.scope != cur && gen.LRender([]*gen.LStmt{o.stmt}) == gen.LRender([]*gen.LStmt{s}) {
			// evidence: the same glob text is active in an enclosing scope; both are judged as
			// independent declarations with their own lexical scope
			x.feat("same_glob_text_active_in_enclosing_scope")
		}
	}
	for _, o := range x.closed {
		if gen.LRender([]*gen.LStmt{o.stmt}) == gen.LRender([]*gen.LStmt{s}) {
			x.feat("same_glob_text_in_closed_nested_or_sibling_scope")
		}
	}
	for _, o := range x.active {
		if o.scope != cur || o.stmt.Head() != s.Head() {
			continue
		}
		emptyMap := func(t *gen.LStmt) bool { return t.Val == nil && len(t.Body) == 0 }
		if gen.LRender([]*gen.LStmt{o.stmt}) == gen.LRender([]*gen.LStmt{s}) || emptyMap(o.stmt) || emptyMap(s) {
			// d2 identifies glob declarations by key equality within a block (d2ast.Key.Equals,
			// which also treats an empty map as equal to any map): a repeated declaration shares
			// the first one's "applied" set
			x.feat("identical_glob_declaration_repeated")
		}
	}
	for _, b := range s.Body {
		if b.Tag == "filter" {
			g.filtered = true
			x.feat("glob_with_filter")
			if strings.HasPrefix(b.Raw, "!") {
				x.feat("glob_with_negated_filter")
			}
		}
	}
	literalMissing := func(from *gObj, segs []string) bool {
		o := from
		for _, seg := range segs {
			if isPattern(seg) {
				return false
			}
			if o = o.child(seg); o == nil {
				return true
			}
		}
		return false
	}
	for _, l := range [][]string{s.Key, s.Src, s.Dst} {
		for _, k := range l {
			if isPattern(k) {
				x.feat("pattern_" + patternClass(k))
				if nonASCII(k) {
					x.feat("pattern_non_ascii")
				}
			}
		}
	}
	switch {
	case !s.IsEdge():
		g.kind = gkField
		g.objSegs, g.tail = splitKey(s.Key)
		x.feat("field_glob")
		if len(g.objSegs) > 1 {
			x.feat("field_glob_multi_segment")
		}
		for _, k := range g.objSegs {
			if k == "***" {
				g.triple = true
			}
		}
		if cur.parent != nil {
			x.feat("glob_in_nested_scope")
		}
		if literalMissing(cur, g.objSegs) {
			// `x.*.shape: v` with x absent: d2 creates x; the statement is silent
			x.unjudged("glob_key_names_absent_object")
		}
	case s.Idx != "" || len(s.EKey) > 0:
		g.kind = gkEdgeRef
		g.prefix, g.srcSegs, g.dstSegs, g.idx = s.Key, s.Src, s.Dst, s.Idx
		if g.idx == "" {
			g.idx = "*"
		}
		x.feat("edge_ref_glob")
		if g.idx != "*" {
			x.feat("edge_ref_glob_literal_index")
		}
		if literalMissing(cur, g.prefix) {
			x.unjudged("glob_key_names_absent_object")
		}
	default:
		g.kind = gkEdgeCreate
		g.srcSegs, g.dstSegs = s.Src, s.Dst
		x.feat("edge_creating_glob")
		if literalMissing(cur, g.srcSegs) || literalMissing(cur, g.dstSegs) {
			x.unjudged("glob_key_names_absent_object")
		}
	}
	x.active = append(x.active, g)
	old := x.lazy
	x.lazy = false
	x.apply(g)
	x.lazy = old
	x.checkClosed()
}

func (x *Expander) deleteObj(o *gObj) {
	sub := []*gObj{o}
	descendants(o, &sub)
	in := map[*gObj]bool{}
	for _, q := range sub {
		in[q] = true
		x.deleted[strings.ToLower(strings.Join(absPath(q), "\x1f"))] = true
	}
	for _, g := range x.active {
		for _, segs := range [][]string{g.objSegs, g.srcSegs, g.dstSegs, g.prefix} {
			q := g.scope
			for _, seg := range segs {
				if isPattern(seg) || q == nil {
					break
				}
				if q = q.child(seg); q != nil && in[q] {
					x.feat("deleted_object_named_literally_by_active_glob")
				}
			}
		}
		if len(g.appliedObj) > 0 || len(g.appliedPair) > 0 {
			x.feat("object_deleted_while_glob_active")
		}
	}
	for _, g := range x.closed {
		for pr := range g.appliedPair {
			if in[pr[0]] || in[pr[1]] {
				// the glob's block is closed, but the connection it created is still there
				x.feat("object_deleted_while_glob_active")
			}
		}
	}
	for _, e := range o.board.edges {
		if in[e.src] || in[e.dst] || in[e.cont] {
			e.dead = true
		}
	}
	p := o.parent
	for i, k := range p.kids {
		if k == o {
			p.kids = append(p.kids[:i:i], p.kids[i+1:]...)
			break
		}
	}
}

func (x *Expander) block(stmts []*gen.LStmt, cur *gObj) {
	mark := len(x.active)
	for _, s := range stmts {
		if s.Raw == "" {
			for _, g := range x.active {
				if g.filtered {
					// d2 re-evaluates a filtered glob on every later field or connection creation
					// against the state of that moment; the statement is silent: not judged
					x.unjudged("filtered_glob_followed_by_statement")
				}
			}
		}
		switch {
		case s.Raw != "":
			// comment
		case !s.IsEdge() && len(s.Key) == 1 && strings.EqualFold(s.Key[0], "layers") && cur.parent == nil:
			x.layers(s, cur.board)
		case stmtHasGlob(s):
			x.declareGlob(s, cur)
		case s.IsEdge() && (s.Idx != "" || len(s.EKey) > 0):
			// explicit reference to an existing connection
			cont := x.find(cur, s.Key)
			src, dst := x.find(cur, join(s.Key, s.Src...)), x.find(cur, join(s.Key, s.Dst...))
			if cont == nil || src == nil || dst == nil {
				x.unjudged("edge_reference_to_missing_object")
				continue
			}
			sa, da := parseArrow(s.Arrow)
			idx, _ := strconv.Atoi(s.Idx)
			var hit *gEdge
			for _, e := range cur.board.edges {
				if !e.dead && e.src == src && e.dst == dst && e.srcArrow == sa && e.dstArrow == da && e.index == idx {
					hit = e
				}
			}
			if hit == nil {
				x.unjudged("edge_reference_to_missing_edge")
				continue
			}
			x.assignEdge(hit, s.EKey, s.Val, s.Body)
		case s.IsEdge():
			src := x.ensure(cur, s.Src)
			dst := x.ensure(cur, s.Dst)
			x.newEdge(cur, src, dst, s.Arrow, nil, func(e *gEdge) {
				if s.Val != nil || len(s.Body) > 0 {
					x.assignEdge(e, nil, s.Val, s.Body)
				}
			})
		default:
			objPath, tail := splitKey(s.Key)
			o := x.ensure(cur, objPath)
			if len(tail) == 0 && s.Val != nil && s.Val.Null {
				if o == cur {
					continue
				}
				x.feat("object_deleted")
				o.board.emit(&gen.LStmt{Key: absPath(o), Val: gen.LNull()})
				x.deleteObj(o)
				continue
			}
			if len(tail) > 0 {
				if s.Val == nil && len(s.Body) == 0 {
					// malformed on purpose or by shrinking: mirror it so that both sides fail
					o.board.emit(&gen.LStmt{Key: join(absPath(o), tail...), HasBody: s.HasBody})
					continue
				}
				x.assignObj(o, tail, s.Val, s.Body)
				continue
			}
			x.assignObj(o, nil, s.Val, nil)
			if s.Body != nil {
				x.block(s.Body, o)
			}
		}
	}
	// the block closes: its globs stop acting (lexical scope)
	if cur.parent != nil || cur.board.parent != nil {
		for _, g := range x.active[mark:] {
			g.closed = true
			x.closed = append(x.closed, g)
		}
	}
	x.active = x.active[:mark:mark]
}

func (x *Expander) layers(s *gen.LStmt, parent *gBoard) {
	x.feat("layers_block")
	for _, ls := range s.Body {
		if ls.Raw != "" || len(ls.Key) != 1 {
			continue
		}
		var b *gBoard
		for _, l := range parent.layers {
			if nameEq(l.name, ls.Key[0]) {
				b = l
			}
		}
		if b == nil {
			b = &gBoard{name: ls.Key[0], parent: parent}
			b.root = &gObj{name: "", board: b, attrs: map[string]string{}}
			parent.layers = append(parent.layers, b)
		}
		// only board-wide globs reach a layer
		saved := x.active
		var inh []*gGlob
		for _, g := range saved {
			if g.triple {
				inh = append(inh, g)
			}
		}
		x.active = inh
		x.block(ls.Body, b.root)
		x.active = saved
	}
}

func boardStmts(b *gBoard) []*gen.LStmt {
	out := append([]*gen.LStmt(nil), b.out...)
	if len(b.layers) > 0 {
		ls := &gen.LStmt{Key: []string{"layers"}, HasBody: true}
		for _, l := range b.layers {
			ls.Body = append(ls.Body, &gen.LStmt{Key: []string{l.name}, HasBody: true, Body: boardStmts(l)})
		}
		out = append(out, ls)
	}
	return out
}

// Expand returns the glob-free twin of prog and what was observed.
func Expand(prog []*gen.LStmt, match func(pattern, name string) bool) ([]*gen.LStmt, GlobInfo) {
	if match == nil {
		match = model.GlobMatch
	}
	x := &Expander{Match: match, info: GlobInfo{Feat: map[string]int{}, Unjudged: map[string]int{}}, deleted: map[string]bool{}}
	b := &gBoard{name: "root"}
	b.root = &gObj{board: b, attrs: map[string]string{}}
	x.root = b
	x.block(prog, b.root)
	return boardStmts(b), x.info
}

// SigKeys returns the structural feature names used in violation signatures (pattern shapes
// are left out: they are evidence, not triggers).
func (i GlobInfo) SigKeys() []string {
	var ks []string
	for k := range i.Feat {
		if strings.HasPrefix(k, "pattern_") && k != "pattern_double" && k != "pattern_triple" && k != "pattern_non_ascii" {
			continue
		}
		ks = append(ks, k)
	}
	sort.Strings(ks)
	return ks
}

// FeatKeys returns the sorted feature names (for signatures).
func (i GlobInfo) FeatKeys() []string {
	var ks []string
	for k := range i.Feat {
		ks = append(ks, k)
	}
	sort.Strings(ks)
	return ks
}
