package model

// core.go — reference interpreter for the core fragment of D2 (property C10: later
// declarations win, null removes). Written from the language description:
//
//   - A key path `a.b.c` declares the objects a, a.b and a.b.c (containers nest); names
//     are compared case-insensitively, the first spelling names the object.
//   - `path: text` sets the label of the last object; a `{ … }` body is interpreted with
//     that object as scope. `path.shape: v`, `path.label: v`, `path.style.k: v` set one
//     attribute of the object: the last assignment in source order wins.
//   - `x -> y` (also `<-`, `--`, `<->`) declares both endpoints (relative to the scope, a
//     leading `_` steps to the parent scope) and creates a NEW connection every time it is
//     written; a chain `a -> b -> c` creates one connection per arrow, all with the given
//     label. Connections with the same endpoints and arrows are told apart by an index:
//     the number of such connections that existed when it was created.
//   - `(x -> y)[i]` refers to that connection: `: text` sets its label, `.style.k: v` one
//     attribute, `: null` removes it. Referring to an index that does not exist is an
//     error ("indexed edge does not exist"); removing a connection that does not exist is
//     not.
//   - `path: null` removes the object, everything inside it and every connection that
//     has an endpoint in it; the prefix objects of the path are declared as by any key
//     path. `path.attr: null` removes the attribute (the object is declared). A later
//     declaration creates the object afresh (default label, no attributes).
//
// In the compiled diagram connections with equal endpoints and arrows are numbered
// 0..k-1 in creation order.

import (
	"fmt"
	"sort"
	"strings"

	"verif/gen"
)

// The program AST (gen.CoreStmt, gen.CoreEnd, gen.CoreAttr) lives in gen/core.go.

type (
	CoreStmt = gen.CoreStmt
	CoreEnd  = gen.CoreEnd
	CoreAttr = gen.CoreAttr
)

// ---- interpreter state ----

type CoreObj struct {
	Name     string // first spelling
	Parent   *CoreObj
	Children []*CoreObj
	Label    *string
	Shape    *string
	Style    map[string]string
	dead     bool

	// history, used only to name the trigger of a disagreement
	LabelByShorthand, LabelByKeyword bool
	Nulled                           map[string]bool // attributes that were nulled at some point
	Recreated                        bool            // an object of this path was removed before
	HasScopedEdgeOut                 bool            // a connection written inside this object's body leaves it through `_`
}

type CoreEdge struct {
	Src, Dst *CoreObj
	SA, DA   bool
	IRIndex  int
	Label    *string
	Style    map[string]string
	dead     bool

	LabelByShorthand, LabelByKeyword bool
	Nulled                           map[string]bool
	Ambiguous                        bool // index bookkeeping of its (endpoints, arrows) class is not unique
}

type CoreResult struct {
	Err string // "" or the error the program must be rejected with
	// ErrAt: index path ("3/0/2") of the statement that is in error.
	ErrAt string
	// AmbiguousSeen: at some point two live connections of one class carried the same
	// index (an index was re-used after a removal) or an indexed reference matched more
	// than one connection; from then on "the connection with index i" is not well defined.
	AmbiguousSeen bool
	Root          *CoreObj
	Edges         []*CoreEdge // live, creation order
	removed       map[string]bool
	// Removed: objects that were removed by a null, by folded path (last removal).
	Removed map[string]*CoreObj
	// RemovedScopedOut: sticky per path — some removal of this path happened while a
	// connection written inside its scope (or an ancestor's) left it through `_`.
	RemovedScopedOut map[string]bool
}

func coreFold(s string) string { return strings.ToLower(strings.ToUpper(s)) }

func (o *CoreObj) child(name string) *CoreObj {
	for _, c := range o.Children {
		if coreFold(c.Name) == coreFold(name) {
			return c
		}
	}
	return nil
}

// PathKey is the case-folded absolute path joined by \x1f.
func (o *CoreObj) PathKey() string {
	var p []string
	for c := o; c != nil && c.Parent != nil; c = c.Parent {
		p = append([]string{coreFold(c.Name)}, p...)
	}
	return strings.Join(p, "\x1f")
}

type coreInterp struct {
	res   *CoreResult
	edges []*CoreEdge
	path  []int
}

func (in *coreInterp) fail(msg string) {
	in.res.Err = msg
	var parts []string
	for _, i := range in.path {
		parts = append(parts, fmt.Sprint(i))
	}
	in.res.ErrAt = strings.Join(parts, "/")
}

func (in *coreInterp) ensure(scope *CoreObj, path []string) *CoreObj {
	cur := scope
	for _, n := range path {
		c := cur.child(n)
		if c == nil {
			c = &CoreObj{Name: n, Parent: cur, Style: map[string]string{}, Nulled: map[string]bool{}}
			cur.Children = append(cur.Children, c)
			if in.res.removed[c.PathKey()] {
				c.Recreated = true
			}
		}
		cur = c
	}
	return cur
}

func (in *coreInterp) end(scope *CoreObj, e CoreEnd) (*CoreObj, bool) {
	cur := scope
	for i := 0; i < e.Under; i++ {
		if cur.Parent == nil {
			return nil, false
		}
		cur = cur.Parent
	}
	return in.ensure(cur, e.Path), true
}

func coreKill(o *CoreObj) {
	o.dead = true
	for _, c := range o.Children {
		coreKill(c)
	}
}

func (in *coreInterp) remove(o *CoreObj) {
	p := o.Parent
	for i, c := range p.Children {
		if c == o {
			p.Children = append(p.Children[:i:i], p.Children[i+1:]...)
			break
		}
	}
	var mark func(o *CoreObj)
	mark = func(o *CoreObj) {
		in.res.removed[o.PathKey()] = true
		in.res.Removed[o.PathKey()] = o
		for a := o; a != nil && a.Parent != nil; a = a.Parent {
			if a.HasScopedEdgeOut {
				in.res.RemovedScopedOut[o.PathKey()] = true
			}
		}
		for _, c := range o.Children {
			mark(c)
		}
	}
	mark(o)
	coreKill(o)
	for _, e := range in.edges {
		if !e.dead && (e.Src.dead || e.Dst.dead) {
			e.dead = true
			in.markClass(e)
		}
	}
}

// markClass: after a removal inside a class of parallel connections the indices of the
// survivors are no longer 0..k-1; a later creation reuses an index. Everything that then
// refers to the class by index is flagged ambiguous (not judged by C10; C11 owns it).
func (in *coreInterp) markClass(dead *CoreEdge) {
	for _, e := range in.edges {
		if !e.dead && e.Src == dead.Src && e.Dst == dead.Dst && e.SA == dead.SA && e.DA == dead.DA {
			e.Ambiguous = true
		}
	}
}

func coreSetAttr(style map[string]string, label **string, shape **string, nulled map[string]bool, a CoreAttr) {
	switch {
	case a.Name == "label":
		*label = a.Value
	case a.Name == "shape":
		if shape != nil {
			if a.Value == nil {
				*shape = nil
			} else {
				v := strings.ToLower(*a.Value)
				*shape = &v
			}
		}
	case a.Name == "style":
		if a.Value == nil {
			for k := range style {
				delete(style, k)
				nulled["style."+k] = true
			}
		}
	case strings.HasPrefix(a.Name, "style."):
		k := strings.TrimPrefix(a.Name, "style.")
		if a.Value == nil {
			delete(style, k)
		} else {
			style[k] = *a.Value
		}
	}
	if a.Value == nil {
		nulled[a.Name] = true
	}
}

func (in *coreInterp) exec(stmts []CoreStmt, scope *CoreObj) {
	in.path = append(in.path, 0)
	defer func() { in.path = in.path[:len(in.path)-1] }()
	for si, s := range stmts {
		if in.res.Err != "" {
			return
		}
		in.path[len(in.path)-1] = si
		switch s.Kind {
		case "decl":
			o := in.ensure(scope, s.Path)
			if s.Label != nil {
				o.Label = s.Label
				o.LabelByShorthand = true
			}
			in.exec(s.Body, o)
		case "attr":
			o := in.ensure(scope, s.Path)
			coreSetAttr(o.Style, &o.Label, &o.Shape, o.Nulled, *s.Attr)
			if s.Attr.Name == "label" {
				o.LabelByKeyword = true
			}
		case "null":
			parent := in.ensure(scope, s.Path[:len(s.Path)-1])
			if t := parent.child(s.Path[len(s.Path)-1]); t != nil {
				in.remove(t)
			}
		case "edge":
			var ends []*CoreObj
			for _, e := range s.Ends {
				o, ok := in.end(scope, e)
				if !ok {
					in.fail("invalid underscore")
					return
				}
				ends = append(ends, o)
				if e.Under > 0 {
					for c := scope; c != nil && c.Parent != nil; c = c.Parent {
						c.HasScopedEdgeOut = true
					}
				}
			}
			for i, ar := range s.Arrows {
				e := &CoreEdge{Src: ends[i], Dst: ends[i+1], SA: ar == "<-" || ar == "<->", DA: ar == "->" || ar == "<->", Style: map[string]string{}, Nulled: map[string]bool{}}
				for _, o := range in.edges {
					if !o.dead && o.Src == e.Src && o.Dst == e.Dst && o.SA == e.SA && o.DA == e.DA {
						e.IRIndex++
						if o.Ambiguous {
							e.Ambiguous = true
						}
					}
				}
				for _, o := range in.edges {
					if !o.dead && o.Src == e.Src && o.Dst == e.Dst && o.SA == e.SA && o.DA == e.DA && o.IRIndex == e.IRIndex {
						in.res.AmbiguousSeen = true
					}
				}
				if s.Label != nil {
					e.Label = s.Label
					e.LabelByShorthand = true
				}
				for _, a := range s.Attrs {
					coreSetAttr(e.Style, &e.Label, nil, e.Nulled, a)
					if a.Name == "label" {
						e.LabelByKeyword = true
					}
				}
				in.edges = append(in.edges, e)
			}
		case "eref":
			// endpoints are looked up, never created
			find := func(e CoreEnd) *CoreObj {
				cur := scope
				for i := 0; i < e.Under; i++ {
					if cur.Parent == nil {
						return nil
					}
					cur = cur.Parent
				}
				for _, n := range e.Path {
					if cur = cur.child(n); cur == nil {
						return nil
					}
				}
				return cur
			}
			src, dst := find(s.Ends[0]), find(s.Ends[1])
			ar := s.Arrows[0]
			sa, da := ar == "<-" || ar == "<->", ar == "->" || ar == "<->"
			var hit []*CoreEdge
			if src != nil && dst != nil {
				for _, e := range in.edges {
					if !e.dead && e.Src == src && e.Dst == dst && e.SA == sa && e.DA == da && e.IRIndex == s.Index {
						hit = append(hit, e)
					}
				}
			}
			if len(hit) > 1 {
				in.res.AmbiguousSeen = true
			}
			if s.Null {
				for _, e := range hit {
					e.dead = true
					in.markClass(e)
				}
				continue
			}
			if len(hit) == 0 {
				allNull := s.Label == nil && len(s.Attrs) > 0
				for _, a := range s.Attrs {
					if a.Value != nil {
						allNull = false
					}
				}
				if allNull {
					continue // nulling an attribute of a connection that does not exist: like removing it, not an error
				}
				in.fail("indexed edge does not exist")
				return
			}
			for _, e := range hit {
				if len(hit) > 1 {
					e.Ambiguous = true
				}
				if s.Label != nil {
					e.Label = s.Label
					e.LabelByShorthand = true
				}
				for _, a := range s.Attrs {
					coreSetAttr(e.Style, &e.Label, nil, e.Nulled, a)
					if a.Name == "label" {
						e.LabelByKeyword = true
					}
				}
			}
		}
	}
}

// CoreRun interprets a program of the core fragment.
func CoreRun(prog []CoreStmt) *CoreResult {
	res := &CoreResult{Root: &CoreObj{Style: map[string]string{}, Nulled: map[string]bool{}}, removed: map[string]bool{}, Removed: map[string]*CoreObj{}, RemovedScopedOut: map[string]bool{}}
	in := &coreInterp{res: res}
	in.exec(prog, res.Root)
	for _, e := range in.edges {
		if !e.dead {
			res.Edges = append(res.Edges, e)
		}
	}
	return res
}

// ---- projection of the model's result, comparable with π(g) ----

type CoreObjOut struct {
	Key   string // folded path
	Name  string // spelling of the object's own name
	Label string
	Shape string
	Style map[string]string
	Obj   *CoreObj
}

type CoreEdgeOut struct {
	Src, Dst string // folded paths
	SA, DA   bool
	Index    int
	Label    string
	Style    map[string]string
	Edge     *CoreEdge
}

func (r *CoreResult) Objects() []CoreObjOut {
	var out []CoreObjOut
	var walk func(o *CoreObj)
	walk = func(o *CoreObj) {
		for _, c := range o.Children {
			oo := CoreObjOut{Key: c.PathKey(), Name: c.Name, Label: c.Name, Shape: "rectangle", Style: c.Style, Obj: c}
			if c.Label != nil {
				oo.Label = *c.Label
			}
			if c.Shape != nil {
				oo.Shape = *c.Shape
			}
			out = append(out, oo)
			walk(c)
		}
	}
	walk(r.Root)
	sort.SliceStable(out, func(i, j int) bool { return out[i].Key < out[j].Key })
	return out
}

func (r *CoreResult) EdgesOut() []CoreEdgeOut {
	var out []CoreEdgeOut
	count := map[string]int{}
	for _, e := range r.Edges {
		eo := CoreEdgeOut{Src: e.Src.PathKey(), Dst: e.Dst.PathKey(), SA: e.SA, DA: e.DA, Style: e.Style, Edge: e}
		k := fmt.Sprint(eo.Src, "\x1e", eo.Dst, e.SA, e.DA)
		eo.Index = count[k]
		count[k]++
		if e.Label != nil {
			eo.Label = *e.Label
		}
		out = append(out, eo)
	}
	return out
}
