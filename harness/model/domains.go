// Package model holds reference models that are independent of the code under test.
package model

// domains.go — reference value domains of D2's reserved attributes and style keywords
// (property C16). Transcribed from the property statement ("opacity a number in [0,1],
// stroke-width 0-15, font-size 8-100, non-negative integer sizes, positions and gaps,
// positive grid rows/columns, named/hex/gradient colours, known shapes, fonts, fill
// patterns, directions and theme IDs") and from the user-facing texts in the repository
// (error messages that name the ranges, the CLI/theme documentation), not from the
// validation code paths.
//
// Membership is three-valued: DomIn (must be accepted and stored unchanged), DomOut (must be
// rejected), DomUnspecified (a lexical variant the documentation does not settle, e.g. "+5",
// "05", "1e-1", "#rrggbbaa", "TRUE": never judged, only counted).

import (
	"math"
	"regexp"
	"strconv"
	"strings"
)

type DomVerdict int

const (
	DomUnspecified DomVerdict = iota
	DomIn
	DomOut
)

func (v DomVerdict) String() string { return [...]string{"unspecified", "in", "out"}[v] }

type DomKind int

const (
	DomKFloat01 DomKind = iota
	DomKInt             // integer in [Min, Max]; Max < 0 = unbounded
	DomKBool
	DomKEnum // case-insensitive member of Values
	DomKColor
	DomKThemeColor // named or hex (theme overrides)
	DomKThemeID
	DomKAnyInt // any integer (pad): non-negative DomIn, negative DomUnspecified
)

type Domain struct {
	Keyword  string
	Kind     DomKind
	Min, Max int
	Values   []string
	// KeywordValued: the compiled value may differ from the input in letter case.
	KeywordValued bool
	// NotJudged: values outside Values that the documentation does not rule out for this
	// position (e.g. an object shape name used as an arrowhead shape; the empty shape,
	// which means "default"): DomUnspecified instead of DomOut.
	NotJudged []string
	Doc       string // where the domain is stated
}

var DomShapes = []string{"rectangle", "square", "page", "parallelogram", "document", "cylinder", "queue", "package", "step",
	"callout", "stored_data", "person", "diamond", "oval", "circle", "hexagon", "cloud", "text", "code", "class", "sql_table",
	"image", "sequence_diagram", "hierarchy", "c4-person"}

// DomArrowheadShapes: the user-facing arrowhead shape names (filled/unfilled variants are
// selected with style.filled, they are not shape names).
var DomArrowheadShapes = []string{"none", "arrow", "triangle", "diamond", "circle", "box", "cross", "cf-one", "cf-many", "cf-one-required", "cf-many-required"}

var DomFillPatterns = []string{"none", "dots", "lines", "grain", "paper"}
var DomTextTransforms = []string{"none", "uppercase", "lowercase", "capitalize"}
var DomDirections = []string{"up", "down", "right", "left"}
var DomFonts = []string{"default", "mono"}

// DomThemeIDs as listed by `d2 themes` / the theme catalog documentation.
var DomThemeIDs = []int{0, 1, 3, 4, 5, 6, 7, 8, 100, 101, 102, 103, 104, 105, 200, 201, 300, 301, 302, 303}

var DomThemeCodes = []string{"N1", "N2", "N3", "N4", "N5", "N6", "N7", "B1", "B2", "B3", "B4", "B5", "B6", "AA2", "AA4", "AA5", "AB4", "AB5"}

// DomNamedColors: the CSS named colours.
var DomNamedColors = strings.Fields(`aliceblue antiquewhite aqua aquamarine azure beige bisque black blanchedalmond blue blueviolet brown
burlywood cadetblue chartreuse chocolate coral cornflowerblue cornsilk crimson cyan darkblue darkcyan darkgoldenrod darkgray darkgreen
darkgrey darkkhaki darkmagenta darkolivegreen darkorange darkorchid darkred darksalmon darkseagreen darkslateblue darkslategray
darkslategrey darkturquoise darkviolet deeppink deepskyblue dimgray dimgrey dodgerblue firebrick floralwhite forestgreen fuchsia
gainsboro ghostwhite gold goldenrod gray green greenyellow grey honeydew hotpink indianred indigo ivory khaki lavender lavenderblush
lawngreen lemonchiffon lightblue lightcoral lightcyan lightgoldenrodyellow lightgray lightgreen lightgrey lightpink lightsalmon
lightseagreen lightskyblue lightslategray lightslategrey lightsteelblue lightyellow lime limegreen linen magenta maroon
mediumaquamarine mediumblue mediumorchid mediumpurple mediumseagreen mediumslateblue mediumspringgreen mediumturquoise
mediumvioletred midnightblue mintcream mistyrose moccasin navajowhite navy oldlace olive olivedrab orange orangered orchid
palegoldenrod palegreen paleturquoise palevioletred papayawhip peachpuff peru pink plum powderblue purple rebeccapurple red
rosybrown royalblue saddlebrown salmon sandybrown seagreen seashell sienna silver skyblue slateblue slategray slategrey snow
springgreen steelblue tan teal thistle tomato turquoise violet wheat white whitesmoke yellow yellowgreen`)

// Style keywords (valid under `style.` of objects, connections and arrowheads).
var DomStyle = []Domain{
	{Keyword: "opacity", Kind: DomKFloat01, Doc: `expected "opacity" to be a number between 0.0 and 1.0`},
	{Keyword: "stroke", Kind: DomKColor, Doc: `valid named color ("orange"), a hex code ("#f0ff3a"), or a gradient ("linear-gradient(red, blue)")`},
	{Keyword: "fill", Kind: DomKColor, Doc: "same as stroke"},
	{Keyword: "font-color", Kind: DomKColor, Doc: "same as stroke"},
	{Keyword: "fill-pattern", Kind: DomKEnum, Values: DomFillPatterns, KeywordValued: true, Doc: `expected "fill-pattern" to be one of: none, dots, lines, grain, paper`},
	{Keyword: "stroke-width", Kind: DomKInt, Min: 0, Max: 15, Doc: `a number between 0 and 15`},
	{Keyword: "stroke-dash", Kind: DomKInt, Min: 0, Max: 10, Doc: `a number between 0 and 10`},
	{Keyword: "border-radius", Kind: DomKInt, Min: 0, Max: -1, Doc: `a number greater or equal to 0`},
	{Keyword: "font-size", Kind: DomKInt, Min: 8, Max: 100, Doc: `a number between 8 and 100`},
	{Keyword: "font", Kind: DomKEnum, Values: DomFonts, KeywordValued: true, Doc: `is not a valid font in our system`},
	{Keyword: "text-transform", Kind: DomKEnum, Values: DomTextTransforms, KeywordValued: true, Doc: `expected "text-transform" to be one of (none, uppercase, lowercase, capitalize)`},
	{Keyword: "shadow", Kind: DomKBool, Doc: "true or false"},
	{Keyword: "3d", Kind: DomKBool, Doc: "true or false"},
	{Keyword: "multiple", Kind: DomKBool, Doc: "true or false"},
	{Keyword: "animated", Kind: DomKBool, Doc: "true or false"},
	{Keyword: "bold", Kind: DomKBool, Doc: "true or false"},
	{Keyword: "italic", Kind: DomKBool, Doc: "true or false"},
	{Keyword: "underline", Kind: DomKBool, Doc: "true or false"},
	{Keyword: "filled", Kind: DomKBool, Doc: "true or false"},
	{Keyword: "double-border", Kind: DomKBool, Doc: "true or false"},
}

// Reserved attributes of objects.
var DomObject = []Domain{
	{Keyword: "shape", Kind: DomKEnum, Values: DomShapes, KeywordValued: true, NotJudged: []string{""}, Doc: "known shapes"},
	{Keyword: "direction", Kind: DomKEnum, Values: DomDirections, KeywordValued: true, Doc: "direction must be one of up, down, right, left"},
	{Keyword: "width", Kind: DomKInt, Min: 0, Max: -1, Doc: "non-negative integer sizes"},
	{Keyword: "height", Kind: DomKInt, Min: 0, Max: -1, Doc: "non-negative integer sizes"},
	{Keyword: "top", Kind: DomKInt, Min: 0, Max: -1, Doc: "top must be a non-negative integer"},
	{Keyword: "left", Kind: DomKInt, Min: 0, Max: -1, Doc: "left must be a non-negative integer"},
	{Keyword: "grid-rows", Kind: DomKInt, Min: 1, Max: -1, Doc: "grid-rows must be a positive integer"},
	{Keyword: "grid-columns", Kind: DomKInt, Min: 1, Max: -1, Doc: "grid-columns must be a positive integer"},
	{Keyword: "grid-gap", Kind: DomKInt, Min: 0, Max: -1, Doc: "grid-gap must be a non-negative integer"},
	{Keyword: "vertical-gap", Kind: DomKInt, Min: 0, Max: -1, Doc: "vertical-gap must be a non-negative integer"},
	{Keyword: "horizontal-gap", Kind: DomKInt, Min: 0, Max: -1, Doc: "horizontal-gap must be a non-negative integer"},
}

// Arrowhead attributes.
var DomArrowhead = []Domain{
	{Keyword: "shape", Kind: DomKEnum, Values: DomArrowheadShapes, KeywordValued: true, NotJudged: append([]string{""}, DomShapes...), Doc: "arrowhead shapes"},
}

// d2-config entries.
var DomConfig = []Domain{
	{Keyword: "theme-id", Kind: DomKThemeID, Doc: "is not a valid theme ID"},
	{Keyword: "dark-theme-id", Kind: DomKThemeID, Doc: "is not a valid theme ID"},
	{Keyword: "pad", Kind: DomKAnyInt, Doc: `expected an integer for "pad"`},
	{Keyword: "sketch", Kind: DomKBool, Doc: `expected a boolean for "sketch"`},
	{Keyword: "center", Kind: DomKBool, Doc: `expected a boolean for "center"`},
}

// DomThemeOverride is the domain of every theme-overrides / dark-theme-overrides code.
var DomThemeOverride = Domain{Keyword: "theme-override", Kind: DomKThemeColor, Doc: `expected "N1" to be a valid named color ("orange") or a hex code ("#f0ff3a")`}

var (
	domReCanonInt   = regexp.MustCompile(`^(0|[1-9][0-9]*)$`)
	domReCanonDec   = regexp.MustCompile(`^-?((0|[1-9][0-9]*)(\.[0-9]+)?|\.[0-9]+)$`)
	domReExpDec     = regexp.MustCompile(`^[+-]?([0-9]+(\.[0-9]*)?|\.[0-9]+)[eE][+-]?[0-9]+$`)
	domReNumericish = regexp.MustCompile(`^[+-]?(0[xXbBoO][0-9a-fA-F_.pP+-]+|[0-9][0-9_]*(\.[0-9_]*)?([eE][+-]?[0-9]+)?|\.[0-9]+([eE][+-]?[0-9]+)?)$`)
	domReHex        = regexp.MustCompile(`^#([0-9a-fA-F]{3}|[0-9a-fA-F]{6})$`)
	domReHexAlpha   = regexp.MustCompile(`^#([0-9a-fA-F]{4}|[0-9a-fA-F]{8})$`)
	domReSimpleGrad = regexp.MustCompile(`^(linear|radial)-gradient\(([^(),]+)(,[^(),]+)+\)$`)
	domReFunc       = regexp.MustCompile(`(?i)^(rgb|rgba|hsl|hsla|hwb|lab|lch|oklab|oklch|color)\(`)
)

func domNumericish(s string) bool {
	t := strings.TrimSpace(s)
	if t == "" {
		return false
	}
	for _, c := range t { // full-width / other scripts' digits
		if c >= 0x80 && (c >= '０' && c <= '９') {
			return true
		}
	}
	return domReNumericish.MatchString(t)
}

func domIsNamed(s string) bool {
	l := strings.ToLower(s)
	for _, n := range DomNamedColors {
		if n == l {
			return true
		}
	}
	return false
}

// Judge says whether value lies in the domain.
func (d Domain) Judge(value string) DomVerdict {
	switch d.Kind {
	case DomKFloat01:
		if domReCanonDec.MatchString(value) {
			f, err := strconv.ParseFloat(value, 64)
			if err != nil {
				return DomUnspecified
			}
			if f == 0 && strings.HasPrefix(value, "-") {
				return DomUnspecified // -0
			}
			if f >= 0 && f <= 1 {
				return DomIn
			}
			return DomOut
		}
		if domReExpDec.MatchString(value) {
			f, err := strconv.ParseFloat(value, 64)
			if err == nil && !math.IsNaN(f) && (f < 0 || f > 1) {
				return DomOut
			}
			return DomUnspecified
		}
		if domNumericish(value) {
			return DomUnspecified
		}
		return DomOut
	case DomKInt, DomKAnyInt, DomKThemeID:
		neg := strings.HasPrefix(value, "-")
		abs := strings.TrimPrefix(value, "-")
		if domReCanonInt.MatchString(abs) {
			n, err := strconv.Atoi(abs)
			tooBig := err != nil
			if neg && n == 0 && !tooBig {
				return DomUnspecified // -0
			}
			switch d.Kind {
			case DomKAnyInt:
				if tooBig {
					return DomUnspecified
				}
				if neg {
					return DomUnspecified
				}
				return DomIn
			case DomKThemeID:
				if neg || tooBig {
					return DomOut
				}
				for _, id := range DomThemeIDs {
					if id == n {
						return DomIn
					}
				}
				return DomOut
			}
			if neg {
				if d.Min >= 0 {
					return DomOut
				}
				n = -n
			}
			if tooBig {
				if d.Max >= 0 {
					return DomOut
				}
				return DomUnspecified // unbounded domain, value beyond machine integers
			}
			if n < d.Min || (d.Max >= 0 && n > d.Max) {
				return DomOut
			}
			return DomIn
		}
		if domReCanonDec.MatchString(value) && d.Kind == DomKInt {
			// a decimal fraction: out when no reading puts it inside the range
			f, _ := strconv.ParseFloat(value, 64)
			if f < float64(d.Min) || (d.Max >= 0 && f > float64(d.Max)) {
				return DomOut
			}
			return DomUnspecified
		}
		if domNumericish(value) {
			return DomUnspecified
		}
		return DomOut
	case DomKBool:
		if value == "true" || value == "false" {
			return DomIn
		}
		switch strings.ToLower(value) {
		case "true", "false", "t", "f", "1", "0":
			return DomUnspecified
		}
		return DomOut
	case DomKEnum:
		for _, v := range d.Values {
			if strings.EqualFold(v, value) {
				return DomIn
			}
		}
		for _, v := range d.NotJudged {
			if strings.EqualFold(v, value) {
				return DomUnspecified
			}
		}
		return DomOut
	case DomKColor, DomKThemeColor:
		switch {
		case domIsNamed(value), domReHex.MatchString(value):
			return DomIn
		case domReHexAlpha.MatchString(value), domReFunc.MatchString(value):
			return DomUnspecified
		case strings.EqualFold(value, "transparent"), strings.EqualFold(value, "currentcolor"):
			return DomUnspecified
		}
		for _, c := range DomThemeCodes {
			if c == value {
				return DomUnspecified // theme colour codes are usable as colours in styles
			}
		}
		if strings.Contains(strings.ToLower(value), "gradient") {
			if d.Kind == DomKThemeColor {
				return DomUnspecified
			}
			if m := domReSimpleGrad.FindStringSubmatch(value); m != nil {
				inner := value[strings.IndexByte(value, '(')+1 : len(value)-1]
				allOK, anyBad := true, false
				for _, stop := range strings.Split(inner, ",") {
					stop = strings.TrimSpace(stop)
					if domIsNamed(stop) || domReHex.MatchString(stop) {
						continue
					}
					allOK = false
					if f := strings.Fields(stop); len(f) == 1 && !strings.HasSuffix(stop, "deg") && !strings.HasPrefix(stop, "to") && !strings.HasPrefix(stop, "#") && !strings.ContainsAny(stop, "0123456789%") {
						anyBad = true // a single word that is no colour
					}
				}
				if allOK {
					return DomIn
				}
				if anyBad {
					return DomOut
				}
				return DomUnspecified
			}
			if strings.Count(value, "(") != strings.Count(value, ")") || !strings.Contains(value, "(") {
				return DomOut
			}
			return DomUnspecified
		}
		return DomOut
	}
	return DomUnspecified
}
