// Package model holds reference models that are independent of the code under test.
package model

// domains.go — reference value domains of D2's reserved attributes and style keywords
// (property C16). Transcribed from the property statement ("opacity a number in [0,1],
// stroke-width 0-15, font-size 8-100, non-negative integer sizes, positions and gaps,
// positive grid rows/columns, named/hex/gradient colours, known shapes, fonts, fill
// patterns, directions and theme IDs") and from the user-facing texts in the repository
// (error messages that name the ranges, the CLI/theme documentation), not from the
// validation code paths.
//
// Membership is three-valued: In (must be accepted and stored unchanged), Out (must be
// rejected), Unspecified (a lexical variant the documentation does not settle, e.g. "+5",
// "05", "1e-1", "#rrggbbaa", "TRUE": never judged, only counted).

import (
	"math"
	"regexp"
	"strconv"
	"strings"
)

type Verdict int

const (
	Unspecified Verdict = iota
	In
	Out
)

func (v Verdict) String() string { return [...]string{"unspecified", "in", "out"}[v] }

type Kind int

const (
	KFloat01 Kind = iota
	KInt          // integer in [Min, Max]; Max < 0 = unbounded
	KBool
	KEnum // case-insensitive member of Values
	KColor
	KThemeColor // named or hex (theme overrides)
	KThemeID
	KAnyInt // any integer (pad): non-negative In, negative Unspecified
)

type Domain struct {
	Keyword  string
	Kind     Kind
	Min, Max int
	Values   []string
	// KeywordValued: the compiled value may differ from the input in letter case.
	KeywordValued bool
	// NotJudged: values outside Values that the documentation does not rule out for this
	// position (e.g. an object shape name used as an arrowhead shape; the empty shape,
	// which means "default"): Unspecified instead of Out.
	NotJudged []string
	Doc       string // where the domain is stated
}

var Shapes = []string{"rectangle", "square", "page", "parallelogram", "document", "cylinder", "queue", "package", "step",
	"callout", "stored_data", "person", "diamond", "oval", "circle", "hexagon", "cloud", "text", "code", "class", "sql_table",
	"image", "sequence_diagram", "hierarchy", "c4-person"}

// ArrowheadShapes: the user-facing arrowhead shape names (filled/unfilled variants are
// selected with style.filled, they are not shape names).
var ArrowheadShapes = []string{"none", "arrow", "triangle", "diamond", "circle", "box", "cross", "cf-one", "cf-many", "cf-one-required", "cf-many-required"}

var FillPatterns = []string{"none", "dots", "lines", "grain", "paper"}
var TextTransforms = []string{"none", "uppercase", "lowercase", "capitalize"}
var Directions = []string{"up", "down", "right", "left"}
var Fonts = []string{"default", "mono"}

// ThemeIDs as listed by `d2 themes` / the theme catalog documentation.
var ThemeIDs = []int{0, 1, 3, 4, 5, 6, 7, 8, 100, 101, 102, 103, 104, 105, 200, 201, 300, 301, 302, 303}

var ThemeCodes = []string{"N1", "N2", "N3", "N4", "N5", "N6", "N7", "B1", "B2", "B3", "B4", "B5", "B6", "AA2", "AA4", "AA5", "AB4", "AB5"}

// NamedColors: the CSS named colours.
var NamedColors = strings.Fields(`aliceblue antiquewhite aqua aquamarine azure beige bisque black blanchedalmond blue blueviolet brown
burlywood cadetblue chartreuse chocolate coral cornflowerblue cornsilk crimson cyan darkblue darkcyan darkgoldenrod darkgray darkgreen
darkgrey darkkhaki darkmagenta darkolivegreen darkorange darkorchid darkred darksalmon darkseagreen darkslateblue darkslategray
darkslategrey darkturquoise darkviolet deeppink deepskyblue dimgray dimgrey dodgerblue firebrick floralwhite forestgreen fuchsia
gainsboro ghostwhite gold goldenrod gray green greenyellow grey honeydew hotpink indianred indigo ivory khaki lavender lavenderblush
lawngreen lemonchiffon lightblue lightcoral lightcyan lightgoldenrodyellow lightgray lightgreen lightgrey lightpink lightsalmon
lightseagreen lightskyblue lightslategray lightslategrey lightsteelblue lightyellow lime limegreen linen magenta maroon
mediumaquamarine mediumblue mediumorchid mediumpurple mediumseagreen mediumslateblue mediumspringgreen mediumturquoise
mediumvioletred midnightblue mintcream mistyrose moccasin navajowhite navy oldlace olive olivedrab orange orangered orchid
palegoldenrod palegreen paleturquoise palevioletred papayawhip peachpuff peru pink plum powderblue purple rebeccapurple red
rosybrown royalblue saddlebrown salmon sandybrown seagreen seashell sienna silver skyblue slateblue slategray slategrey snow
springgreen steelblue tan teal thistle tomato turquoise violet wheat white whitesmoke yellow yellowgreen`)

// Style keywords (valid under `style.` of objects, connections and arrowheads).
var StyleDomains = []Domain{
	{Keyword: "opacity", Kind: KFloat01, Doc: `expected "opacity" to be a number between 0.0 and 1.0`},
	{Keyword: "stroke", Kind: KColor, Doc: `valid named color ("orange"), a hex code ("#f0ff3a"), or a gradient ("linear-gradient(red, blue)")`},
	{Keyword: "fill", Kind: KColor, Doc: "same as stroke"},
	{Keyword: "font-color", Kind: KColor, Doc: "same as stroke"},
	{Keyword: "fill-pattern", Kind: KEnum, Values: FillPatterns, KeywordValued: true, Doc: `expected "fill-pattern" to be one of: none, dots, lines, grain, paper`},
	{Keyword: "stroke-width", Kind: KInt, Min: 0, Max: 15, Doc: `a number between 0 and 15`},
	{Keyword: "stroke-dash", Kind: KInt, Min: 0, Max: 10, Doc: `a number between 0 and 10`},
	{Keyword: "border-radius", Kind: KInt, Min: 0, Max: -1, Doc: `a number greater or equal to 0`},
	{Keyword: "font-size", Kind: KInt, Min: 8, Max: 100, Doc: `a number between 8 and 100`},
	{Keyword: "font", Kind: KEnum, Values: Fonts, KeywordValued: true, Doc: `is not a valid font in our system`},
	{Keyword: "text-transform", Kind: KEnum, Values: TextTransforms, KeywordValued: true, Doc: `expected "text-transform" to be one of (none, uppercase, lowercase, capitalize)`},
	{Keyword: "shadow", Kind: KBool, Doc: "true or false"},
	{Keyword: "3d", Kind: KBool, Doc: "true or false"},
	{Keyword: "multiple", Kind: KBool, Doc: "true or false"},
	{Keyword: "animated", Kind: KBool, Doc: "true or false"},
	{Keyword: "bold", Kind: KBool, Doc: "true or false"},
	{Keyword: "italic", Kind: KBool, Doc: "true or false"},
	{Keyword: "underline", Kind: KBool, Doc: "true or false"},
	{Keyword: "filled", Kind: KBool, Doc: "true or false"},
	{Keyword: "double-border", Kind: KBool, Doc: "true or false"},
}

// Reserved attributes of objects.
var ObjectDomains = []Domain{
	{Keyword: "shape", Kind: KEnum, Values: Shapes, KeywordValued: true, NotJudged: []string{""}, Doc: "known shapes"},
	{Keyword: "direction", Kind: KEnum, Values: Directions, KeywordValued: true, Doc: "direction must be one of up, down, right, left"},
	{Keyword: "width", Kind: KInt, Min: 0, Max: -1, Doc: "non-negative integer sizes"},
	{Keyword: "height", Kind: KInt, Min: 0, Max: -1, Doc: "non-negative integer sizes"},
	{Keyword: "top", Kind: KInt, Min: 0, Max: -1, Doc: "top must be a non-negative integer"},
	{Keyword: "left", Kind: KInt, Min: 0, Max: -1, Doc: "left must be a non-negative integer"},
	{Keyword: "grid-rows", Kind: KInt, Min: 1, Max: -1, Doc: "grid-rows must be a positive integer"},
	{Keyword: "grid-columns", Kind: KInt, Min: 1, Max: -1, Doc: "grid-columns must be a positive integer"},
	{Keyword: "grid-gap", Kind: KInt, Min: 0, Max: -1, Doc: "grid-gap must be a non-negative integer"},
	{Keyword: "vertical-gap", Kind: KInt, Min: 0, Max: -1, Doc: "vertical-gap must be a non-negative integer"},
	{Keyword: "horizontal-gap", Kind: KInt, Min: 0, Max: -1, Doc: "horizontal-gap must be a non-negative integer"},
}

// Arrowhead attributes.
var ArrowheadDomains = []Domain{
	{Keyword: "shape", Kind: KEnum, Values: ArrowheadShapes, KeywordValued: true, NotJudged: append([]string{""}, Shapes...), Doc: "arrowhead shapes"},
}

// d2-config entries.
var ConfigDomains = []Domain{
	{Keyword: "theme-id", Kind: KThemeID, Doc: "is not a valid theme ID"},
	{Keyword: "dark-theme-id", Kind: KThemeID, Doc: "is not a valid theme ID"},
	{Keyword: "pad", Kind: KAnyInt, Doc: `expected an integer for "pad"`},
	{Keyword: "sketch", Kind: KBool, Doc: `expected a boolean for "sketch"`},
	{Keyword: "center", Kind: KBool, Doc: `expected a boolean for "center"`},
}

// ThemeOverrideDomain is the domain of every theme-overrides / dark-theme-overrides code.
var ThemeOverrideDomain = Domain{Keyword: "theme-override", Kind: KThemeColor, Doc: `expected "N1" to be a valid named color ("orange") or a hex code ("#f0ff3a")`}

var (
	reCanonInt   = regexp.MustCompile(`^(0|[1-9][0-9]*)$`)
	reCanonDec   = regexp.MustCompile(`^-?((0|[1-9][0-9]*)(\.[0-9]+)?|\.[0-9]+)$`)
	reExpDec     = regexp.MustCompile(`^[+-]?([0-9]+(\.[0-9]*)?|\.[0-9]+)[eE][+-]?[0-9]+$`)
	reNumericish = regexp.MustCompile(`^[+-]?(0[xXbBoO][0-9a-fA-F_.pP+-]+|[0-9][0-9_]*(\.[0-9_]*)?([eE][+-]?[0-9]+)?|\.[0-9]+([eE][+-]?[0-9]+)?)$`)
	reHex        = regexp.MustCompile(`^#([0-9a-fA-F]{3}|[0-9a-fA-F]{6})$`)
	reHexAlpha   = regexp.MustCompile(`^#([0-9a-fA-F]{4}|[0-9a-fA-F]{8})$`)
	reSimpleGrad = regexp.MustCompile(`^(linear|radial)-gradient\(([^(),]+)(,[^(),]+)+\)$`)
	reFunc       = regexp.MustCompile(`(?i)^(rgb|rgba|hsl|hsla|hwb|lab|lch|oklab|oklch|color)\(`)
)

func numericish(s string) bool {
	t := strings.TrimSpace(s)
	if t == "" {
		return false
	}
	for _, c := range t { // full-width / other scripts' digits
		if c >= 0x80 && (c >= '０' && c <= '９') {
			return true
		}
	}
	return reNumericish.MatchString(t)
}

func isNamed(s string) bool {
	l := strings.ToLower(s)
	for _, n := range NamedColors {
		if n == l {
			return true
		}
	}
	return false
}

// Judge says whether value lies in the domain.
func (d Domain) Judge(value string) Verdict {
	switch d.Kind {
	case KFloat01:
		if reCanonDec.MatchString(value) {
			f, err := strconv.ParseFloat(value, 64)
			if err != nil {
				return Unspecified
			}
			if f == 0 && strings.HasPrefix(value, "-") {
				return Unspecified // -0
			}
			if f >= 0 && f <= 1 {
				return In
			}
			return Out
		}
		if reExpDec.MatchString(value) {
			f, err := strconv.ParseFloat(value, 64)
			if err == nil && !math.IsNaN(f) && (f < 0 || f > 1) {
				return Out
			}
			return Unspecified
		}
		if numericish(value) {
			return Unspecified
		}
		return Out
	case KInt, KAnyInt, KThemeID:
		neg := strings.HasPrefix(value, "-")
		abs := strings.TrimPrefix(value, "-")
		if reCanonInt.MatchString(abs) {
			n, err := strconv.Atoi(abs)
			tooBig := err != nil
			if neg && n == 0 && !tooBig {
				return Unspecified // -0
			}
			switch d.Kind {
			case KAnyInt:
				if tooBig {
					return Unspecified
				}
				if neg {
					return Unspecified
				}
				return In
			case KThemeID:
				if neg || tooBig {
					return Out
				}
				for _, id := range ThemeIDs {
					if id == n {
						return In
					}
				}
				return Out
			}
			if neg {
				if d.Min >= 0 {
					return Out
				}
				n = -n
			}
			if tooBig {
				if d.Max >= 0 {
					return Out
				}
				return Unspecified // unbounded domain, value beyond machine integers
			}
			if n < d.Min || (d.Max >= 0 && n > d.Max) {
				return Out
			}
			return In
		}
		if reCanonDec.MatchString(value) && d.Kind == KInt {
			// a decimal fraction: out when no reading puts it inside the range
			f, _ := strconv.ParseFloat(value, 64)
			if f < float64(d.Min) || (d.Max >= 0 && f > float64(d.Max)) {
				return Out
			}
			return Unspecified
		}
		if numericish(value) {
			return Unspecified
		}
		return Out
	case KBool:
		if value == "true" || value == "false" {
			return In
		}
		switch strings.ToLower(value) {
		case "true", "false", "t", "f", "1", "0":
			return Unspecified
		}
		return Out
	case KEnum:
		for _, v := range d.Values {
			if strings.EqualFold(v, value) {
				return In
			}
		}
		for _, v := range d.NotJudged {
			if strings.EqualFold(v, value) {
				return Unspecified
			}
		}
		return Out
	case KColor, KThemeColor:
		switch {
		case isNamed(value), reHex.MatchString(value):
			return In
		case reHexAlpha.MatchString(value), reFunc.MatchString(value):
			return Unspecified
		case strings.EqualFold(value, "transparent"), strings.EqualFold(value, "currentcolor"):
			return Unspecified
		}
		for _, c := range ThemeCodes {
			if c == value {
				return Unspecified // theme colour codes are usable as colours in styles
			}
		}
		if strings.Contains(strings.ToLower(value), "gradient") {
			if d.Kind == KThemeColor {
				return Unspecified
			}
			if m := reSimpleGrad.FindStringSubmatch(value); m != nil {
				inner := value[strings.IndexByte(value, '(')+1 : len(value)-1]
				allOK, anyBad := true, false
				for _, stop := range strings.Split(inner, ",") {
					stop = strings.TrimSpace(stop)
					if isNamed(stop) || reHex.MatchString(stop) {
						continue
					}
					allOK = false
					if f := strings.Fields(stop); len(f) == 1 && !strings.HasSuffix(stop, "deg") && !strings.HasPrefix(stop, "to") && !strings.HasPrefix(stop, "#") && !strings.ContainsAny(stop, "0123456789%") {
						anyBad = true // a single word that is no colour
					}
				}
				if allOK {
					return In
				}
				if anyBad {
					return Out
				}
				return Unspecified
			}
			if strings.Count(value, "(") != strings.Count(value, ")") || !strings.Contains(value, "(") {
				return Out
			}
			return Unspecified
		}
		return Out
	}
	return Unspecified
}
