// vplugin is an external d2 layout plugin ("d2plugin-vdagre" on the private PATH the C26
// monitor sets up): d2's own plugin server (d2plugin.Serve) around the bundled dagre
// plugin, built from the tree under test. It exists so that the exec-plugin wire path
// (d2plugin.execPlugin → stdin/stdout JSON → d2plugin.Serve → layout → JSON back) can be
// compared with the in-process dagre layout.
//
// The plugin must report a name other than "dagre": d2plugin.ListPlugins drops binary
// plugins whose name equals a bundled one.
package main

import (
	"context"

	"oss.terrastruct.com/d2/d2plugin"
	"oss.terrastruct.com/util-go/xmain"
)

type vdagre struct{ d2plugin.Plugin }

func (v vdagre) Info(ctx context.Context) (*d2plugin.PluginInfo, error) {
	i, err := v.Plugin.Info(ctx)
	if err != nil {
		return nil, err
	}
	c := *i
	c.Name = "vdagre"
	return &c, nil
}

func main() {
	xmain.Main(d2plugin.Serve(vdagre{&d2plugin.DagrePlugin}))
}
