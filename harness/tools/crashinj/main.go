// crashinj is a ptrace-based crash-point injector for Go (multi-threaded) programs.
//
//	crashinj [-kill N] [-out trace.json] [-stdout f] [-stderr f] [-dir d] -- cmd args...
//
// It runs cmd under ptrace (PTRACE_O_TRACECLONE|TRACEFORK|TRACEVFORK|TRACEEXEC|
// TRACESYSGOOD|EXITKILL), follows every thread and child process, and keeps ONE global
// counter of the file-system system calls entered after the initial execve:
//
//	open openat openat2 creat  write pwrite64 writev pwritev pwritev2  close
//	rename renameat renameat2  unlink unlinkat rmdir  truncate ftruncate
//	fsync fdatasync sync_file_range  chmod fchmod fchmodat fchmodat2
//	mkdir mkdirat  link linkat symlink symlinkat
//
// (writes/closes/fsyncs whose descriptor is an anonymous inode — the Go runtime's
// eventfd / epoll wake-ups, whose count depends on timing — are not file-system calls
// and are not counted; neither are writes to the program's stdout/stderr when this tool
// redirected them to /dev/null: timing-dependent progress messages that touch no file.) Every counted call is recorded at its syscall-ENTRY stop with
// the thread id, the decoded path / descriptor target and flags.
//
// With -kill N the whole thread group (and every traced child) is SIGKILLed while the
// N-th counted call sits at its entry stop: that call never executes. Without -kill the
// program runs to completion and the complete list is written.
//
// The trace is written as JSON: {"calls":[{"i":1,"tid":..,"name":"openat","path":..,
// "flags":..,"fd":..}…], "killed_at":N, "exit":code, "signal":n}.
//
// Only the standard library is used; linux/amd64 only.
package main

import (
	"encoding/json"
	"flag"
	"fmt"
	"os"
	"os/exec"
	"runtime"
	"strings"
	"syscall"
	"unsafe"
)

type call struct {
	I     int    `json:"i"`
	Tid   int    `json:"tid"`
	Pid   int    `json:"pid"`
	Name  string `json:"name"`
	Path  string `json:"path,omitempty"`  // decoded path argument (as given by the program)
	Path2 string `json:"path2,omitempty"` // second path (rename/link)
	Fd    int    `json:"fd,omitempty"`    // descriptor argument (fd based calls); dirfd for *at calls when not AT_FDCWD
	FdTo  string `json:"fd_to,omitempty"` // readlink of /proc/<tid>/fd/<fd>
	Flags uint64 `json:"flags,omitempty"` // open flags
	Len   uint64 `json:"len,omitempty"`   // write length / truncate length
}

type trace struct {
	Calls    []call `json:"calls"`
	KilledAt int    `json:"killed_at,omitempty"`
	Exit     int    `json:"exit"`
	Signal   int    `json:"signal,omitempty"`
	Threads  int    `json:"threads"`
	Procs    int    `json:"procs"`
	Stops    int    `json:"syscall_stops"`
	Error    string `json:"error,omitempty"`
}

type kind int

const (
	kPath      kind = iota // arg0 path
	kAtPath                // arg0 dirfd, arg1 path
	kFd                    // arg0 fd
	kPath2                 // arg0 path, arg1 path
	kAtPath2               // arg0 dirfd, arg1 path, arg2 dirfd, arg3 path
	kSymlink               // arg0 target, arg1 linkpath
	kSymlinkAt             // arg0 target, arg1 dirfd, arg2 linkpath
)

type sysdesc struct {
	name string
	k    kind
}

// linux/amd64 syscall numbers
var fsCalls = map[uint64]sysdesc{
	1:   {"write", kFd},
	2:   {"open", kPath},
	3:   {"close", kFd},
	18:  {"pwrite64", kFd},
	20:  {"writev", kFd},
	74:  {"fsync", kFd},
	75:  {"fdatasync", kFd},
	76:  {"truncate", kPath},
	77:  {"ftruncate", kFd},
	82:  {"rename", kPath2},
	83:  {"mkdir", kPath},
	84:  {"rmdir", kPath},
	85:  {"creat", kPath},
	86:  {"link", kPath2},
	87:  {"unlink", kPath},
	88:  {"symlink", kSymlink},
	90:  {"chmod", kPath},
	91:  {"fchmod", kFd},
	257: {"openat", kAtPath},
	258: {"mkdirat", kAtPath},
	263: {"unlinkat", kAtPath},
	264: {"renameat", kAtPath2},
	265: {"linkat", kAtPath2},
	266: {"symlinkat", kSymlinkAt},
	268: {"fchmodat", kAtPath},
	277: {"sync_file_range", kFd},
	296: {"pwritev", kFd},
	316: {"renameat2", kAtPath2},
	328: {"pwritev2", kFd},
	437: {"openat2", kAtPath},
	452: {"fchmodat2", kAtPath},
}

const (
	ptraceGetSyscallInfo = 0x420e
	ptraceOExitKill      = 0x100000
	sysInfoEntry         = 1
)

// struct ptrace_syscall_info (entry variant)
type syscallInfo struct {
	Op    uint8
	_     [3]uint8
	Arch  uint32
	IP    uint64
	SP    uint64
	Nr    uint64
	Args  [6]uint64
	_pad2 [16]byte
}

func getSyscallInfo(tid int, si *syscallInfo) error {
	_, _, e := syscall.Syscall6(syscall.SYS_PTRACE, ptraceGetSyscallInfo, uintptr(tid), unsafe.Sizeof(*si), uintptr(unsafe.Pointer(si)), 0, 0)
	if e != 0 {
		return e
	}
	return nil
}

func readString(tid int, addr uint64) string {
	if addr == 0 {
		return ""
	}
	var out []byte
	buf := make([]byte, 256)
	for len(out) < 8192 {
		n, err := syscall.PtracePeekData(tid, uintptr(addr)+uintptr(len(out)), buf)
		if n <= 0 || err != nil {
			// retry byte-wise near a page end
			if len(buf) > 8 {
				buf = buf[:8]
				continue
			}
			break
		}
		for i := 0; i < n; i++ {
			if buf[i] == 0 {
				return string(append(out, buf[:i]...))
			}
		}
		out = append(out, buf[:n]...)
	}
	return string(out)
}

func fdTarget(tid, fd int) string {
	s, err := os.Readlink(fmt.Sprintf("/proc/%d/fd/%d", tid, fd))
	if err != nil {
		return ""
	}
	return s
}

func main() {
	killAt := flag.Int("kill", 0, "SIGKILL the program at the entry stop of the N-th counted call (0 = never)")
	outPath := flag.String("out", "", "write the trace JSON here (default stdout)")
	stdout := flag.String("stdout", "", "file for the program's stdout (default /dev/null)")
	stderr := flag.String("stderr", "", "file for the program's stderr (default /dev/null)")
	dir := flag.String("dir", "", "working directory of the program")
	flag.Parse()
	args := flag.Args()
	if len(args) == 0 {
		fmt.Fprintln(os.Stderr, "usage: crashinj [-kill N] [-out f] -- cmd args...")
		os.Exit(3)
	}
	// all ptrace requests must come from the thread that is the tracer
	runtime.LockOSThread()

	tr := run(args, *dir, *stdout, *stderr, *killAt)
	b, _ := json.Marshal(tr)
	if *outPath == "" {
		os.Stdout.Write(append(b, '\n'))
	} else if err := os.WriteFile(*outPath, b, 0o644); err != nil {
		fmt.Fprintln(os.Stderr, err)
		os.Exit(3)
	}
	if tr.Error != "" {
		fmt.Fprintln(os.Stderr, "crashinj:", tr.Error)
		os.Exit(3)
	}
}

// stdioIsDevNull is true when both stdout and stderr of the program go to /dev/null.
var stdioIsDevNull bool

func openOut(p string) *os.File {
	if p == "" {
		f, _ := os.OpenFile("/dev/null", os.O_WRONLY, 0)
		return f
	}
	f, err := os.OpenFile(p, os.O_WRONLY|os.O_CREATE|os.O_TRUNC, 0o644)
	if err != nil {
		fmt.Fprintln(os.Stderr, err)
		os.Exit(3)
	}
	return f
}

func run(args []string, dir, stdout, stderr string, killAt int) (tr trace) {
	bin, err := exec.LookPath(args[0])
	if err != nil {
		tr.Error = err.Error()
		return
	}
	devnull, _ := os.Open("/dev/null")
	so, se := openOut(stdout), openOut(stderr)
	stdioIsDevNull = stdout == "" && stderr == ""
	pid, err := syscall.ForkExec(bin, args, &syscall.ProcAttr{
		Dir:   dir,
		Env:   os.Environ(),
		Files: []uintptr{devnull.Fd(), so.Fd(), se.Fd()},
		Sys:   &syscall.SysProcAttr{Ptrace: true, Setpgid: true},
	})
	if err != nil {
		tr.Error = "forkexec: " + err.Error()
		return
	}
	var ws syscall.WaitStatus
	if _, err := syscall.Wait4(pid, &ws, 0, nil); err != nil || !ws.Stopped() {
		tr.Error = fmt.Sprintf("initial wait: %v status %#x", err, ws)
		syscall.Kill(pid, syscall.SIGKILL)
		return
	}
	opts := syscall.PTRACE_O_TRACECLONE | syscall.PTRACE_O_TRACEFORK | syscall.PTRACE_O_TRACEVFORK |
		syscall.PTRACE_O_TRACEEXEC | syscall.PTRACE_O_TRACESYSGOOD | ptraceOExitKill
	if err := syscall.PtraceSetOptions(pid, opts); err != nil {
		tr.Error = "setoptions: " + err.Error()
		syscall.Kill(pid, syscall.SIGKILL)
		return
	}
	// tid -> thread group id
	tgid := map[int]int{pid: pid}
	live := map[int]bool{pid: true}
	procs := map[int]bool{pid: true}
	tr.Threads = 1
	killed := false
	killAll := func() {
		killed = true
		for p := range procs {
			syscall.Kill(p, syscall.SIGKILL)
		}
	}
	if err := syscall.PtraceSyscall(pid, 0); err != nil {
		tr.Error = "ptrace syscall: " + err.Error()
		killAll()
	}
	count := 0
	for len(live) > 0 {
		wpid, err := syscall.Wait4(-1, &ws, syscall.WALL, nil)
		if err != nil {
			if err == syscall.EINTR {
				continue
			}
			break // ECHILD
		}
		if ws.Exited() || ws.Signaled() {
			delete(live, wpid)
			if wpid == pid {
				if ws.Exited() {
					tr.Exit = ws.ExitStatus()
				} else {
					tr.Exit = -1
					tr.Signal = int(ws.Signal())
				}
			}
			continue
		}
		if !ws.Stopped() {
			continue
		}
		if !live[wpid] {
			// a new thread/child reported before its parent's clone event
			live[wpid] = true
			tr.Threads++
			if _, ok := tgid[wpid]; !ok {
				tgid[wpid] = tgidOf(wpid)
				if tgid[wpid] == wpid {
					procs[wpid] = true
				}
			}
		}
		if killed {
			// already killing: nothing may run any further
			continue
		}
		sig := ws.StopSignal()
		deliver := 0
		switch {
		case sig == syscall.SIGTRAP|0x80:
			tr.Stops++
			var si syscallInfo
			if err := getSyscallInfo(wpid, &si); err != nil {
				if err == syscall.ESRCH {
					continue
				}
				tr.Error = "PTRACE_GET_SYSCALL_INFO: " + err.Error()
				killAll()
				continue
			}
			if si.Op == sysInfoEntry {
				if d, ok := fsCalls[si.Nr]; ok {
					c, counted := decode(wpid, tgid[wpid], d, &si)
					if counted {
						count++
						c.I = count
						tr.Calls = append(tr.Calls, c)
						if killAt > 0 && count == killAt {
							tr.KilledAt = count
							killAll()
							continue
						}
					}
				}
			}
		case sig == syscall.SIGTRAP && ws.TrapCause() > 0:
			// PTRACE_EVENT_*: clone/fork/vfork/exec
			switch ws.TrapCause() {
			case syscall.PTRACE_EVENT_CLONE, syscall.PTRACE_EVENT_FORK, syscall.PTRACE_EVENT_VFORK:
				if msg, err := syscall.PtraceGetEventMsg(wpid); err == nil {
					nt := int(msg)
					if !live[nt] {
						live[nt] = true
						tr.Threads++
					}
					if ws.TrapCause() == syscall.PTRACE_EVENT_CLONE {
						// CLONE_THREAD in practice for Go; verify
						tgid[nt] = tgidOf(nt)
						if tgid[nt] == 0 {
							tgid[nt] = tgid[wpid]
						}
					} else {
						tgid[nt] = nt
					}
					if tgid[nt] == nt {
						procs[nt] = true
					}
				}
			}
		case sig == syscall.SIGSTOP:
			// initial stop of an auto-attached thread / child: swallowed (the traced
			// program is not expected to receive a real SIGSTOP)
		case sig == syscall.SIGTRAP:
			// exec trap without TRACEEXEC or single-step: swallow
		default:
			deliver = int(sig)
		}
		if err := syscall.PtraceSyscall(wpid, deliver); err != nil && err != syscall.ESRCH {
			tr.Error = fmt.Sprintf("ptrace syscall(%d): %v", wpid, err)
			killAll()
		}
	}
	tr.Procs = len(procs)
	// killAt > 0 && tr.KilledAt == 0: the program finished before reaching the kill point;
	// the caller sees that from killed_at.
	return
}

func tgidOf(tid int) int {
	b, err := os.ReadFile(fmt.Sprintf("/proc/%d/status", tid))
	if err != nil {
		return 0
	}
	for _, ln := range strings.Split(string(b), "\n") {
		if strings.HasPrefix(ln, "Tgid:") {
			var v int
			fmt.Sscanf(strings.TrimSpace(strings.TrimPrefix(ln, "Tgid:")), "%d", &v)
			return v
		}
	}
	return 0
}

const atFdCwd = -100

func decode(tid, pid int, d sysdesc, si *syscallInfo) (c call, counted bool) {
	c = call{Tid: tid, Pid: pid, Name: d.name}
	a := si.Args
	dirfd := func(v uint64) {
		if int32(v) != atFdCwd {
			c.Fd = int(int32(v))
			c.FdTo = fdTarget(tid, c.Fd)
		}
	}
	switch d.k {
	case kPath:
		c.Path = readString(tid, a[0])
		if d.name == "open" {
			c.Flags = a[1]
		}
		if d.name == "truncate" {
			c.Len = a[1]
		}
	case kAtPath:
		dirfd(a[0])
		c.Path = readString(tid, a[1])
		if d.name == "openat" {
			c.Flags = a[2]
		}
	case kFd:
		c.Fd = int(int32(a[0]))
		c.FdTo = fdTarget(tid, c.Fd)
		if strings.HasPrefix(c.FdTo, "anon_inode:") {
			return c, false // runtime wake-ups (eventfd/epoll): not a file-system call
		}
		if c.FdTo == "/dev/null" && (c.Fd == 1 || c.Fd == 2) && stdioIsDevNull {
			// the program's own stdout/stderr, which this tool redirected to /dev/null:
			// progress messages are timing dependent ("still compiling…") and touch no file
			return c, false
		}
		switch d.name {
		case "write", "pwrite64":
			c.Len = a[2]
		case "ftruncate":
			c.Len = a[1]
		}
	case kPath2:
		c.Path = readString(tid, a[0])
		c.Path2 = readString(tid, a[1])
	case kAtPath2:
		dirfd(a[0])
		c.Path = readString(tid, a[1])
		c.Path2 = readString(tid, a[3])
	case kSymlink:
		c.Path = readString(tid, a[0])
		c.Path2 = readString(tid, a[1])
	case kSymlinkAt:
		c.Path = readString(tid, a[0])
		c.Path2 = readString(tid, a[2])
	}
	return c, true
}
