#!/bin/bash
# MANIFEST.setup_cmd: build the harness (plain and -race), the d2 CLI and tools from files
# on disk only (offline). Warms the Go build cache so that each ./check rebuild is fast.
set -e
cd "$(dirname "$0")"
. ./env.sh
mkdir -p bin evidence replays
( cd harness && go build -tags verif -o ../bin/vd ./cmd/vd )
( cd harness && go build -race -tags verif -o ../bin/vd-race ./cmd/vd )
( cd /repo && go build -tags verif -o "$VERIF/bin/d2" . )
if [ -d harness/tools ]; then ( cd harness && go build -tags verif -o ../bin/ ./tools/... ); fi
bin/vd list >/dev/null
echo "setup ok"
